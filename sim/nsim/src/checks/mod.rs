//! One module per claimed property.

pub mod c01;
pub mod c02;
pub mod c03;
pub mod c12;
pub mod c13;
pub mod c14;
pub mod c15;
pub mod c16;

use crate::kernel::{Check, RunCtx, Stats, Tier, prng};

pub static ALL: &[&'static dyn Check] = &[&c01::C01, &c02::C02, &c03::C03, &c12::C12, &c13::C13, &c14::C14, &c15::C15, &c16::C16];

/// Determinism self-test: every case is planned and executed twice in this process; plans,
/// findings and the statistics (which include every fault that fired and every probe) must be
/// byte-identical. The caller runs this in several processes at different worker counts and diffs
/// the printed digests.
pub fn selftest_determinism(check: &dyn Check, seed: u64, cases: u64) -> i32 {
    let mut digest = prng::Fnv::new();
    let mut diverged = 0u64;
    let n = cases.min(check.n_cases(Tier::Quick));
    for idx in 0..n {
        let mut one = |_: u32| {
            let plan = check.plan(seed, idx, Tier::Quick);
            let mut stats = Stats::default();
            let findings = {
                let mut ctx = RunCtx::new(&mut stats);
                check.execute(&plan, &mut ctx)
            };
            let f: Vec<_> = findings
                .iter()
                .map(|f| (f.violation.signature(check.id()), f.violation.message.clone(), f.plan.to_string()))
                .collect();
            format!("{}|{}|{:?}", plan, serde_json::to_string(&stats).unwrap(), f)
        };
        let a = one(0);
        let b = one(1);
        if a != b {
            diverged += 1;
            eprintln!("DIVERGENCE in case {idx}");
        }
        digest.str(&a);
    }
    println!(
        "selftest determinism {}: cases={} diverged={} digest={:016x}",
        check.id(),
        n,
        diverged,
        digest.get()
    );
    if diverged == 0 { 0 } else { 1 }
}

/// Domain validation: every generated file of every kind, read back fault-free through every
/// reading-protocol variant, must reproduce the model exactly. Run at development time (and by
/// `selftest domain`) so that generators never out-run the domain on which the unchanged tree
/// round-trips.
pub fn selftest_domain(seed: u64, cases: u64, only: Option<&str>) -> i32 {
    use crate::fmt::{End, Source, kinds};
    let mut bad = 0u64;
    let mut n = 0u64;
    for idx in 0..cases {
        for &kind in kinds::ALL_KINDS {
            if let Some(o) = only {
                if kind.name() != o {
                    continue;
                }
            }
            let mut rng = crate::kernel::Rng::new(prng::derive(seed, "domain", idx));
            let spec = kinds::FileSpec {
                kind,
                size_class: (idx % 4) as u8,
                seed: rng.next_u64(),
            };
            let made = match crate::kernel::catch(|| kinds::make(&spec)) {
                Ok(Ok(m)) => m,
                Ok(Err(e)) => {
                    bad += 1;
                    if bad <= 20 {
                        println!("MAKE-ERROR {spec:?}: {e}");
                    }
                    continue;
                }
                Err(p) => {
                    bad += 1;
                    if bad <= 20 {
                        println!("MAKE-PANIC {spec:?}: {} {}", p.location, p.message);
                    }
                    continue;
                }
            };
            for variant in 0..kind.variants() {
                n += 1;
                let obs = kinds::read(kind, variant, Source::plain(made.bytes.clone()));
                let got = kinds::content_items(&obs.items);
                let ok_bytes = match &made.flat {
                    Some(f) if kind == kinds::Kind::Bgzf => obs.bytes == f.data,
                    _ => true,
                };
                let model_ok = !kinds::has_model(kind, variant) || got == made.expected;
                if obs.end != End::Eof || !model_ok || !ok_bytes {
                    bad += 1;
                    if bad <= 20 {
                        let d = crate::fmt::first_diff(&got, &made.expected);
                        println!("MISMATCH {spec:?} variant {variant}: end={:?} first_diff={d:?}", obs.end);
                        if let Some(i) = d {
                            if let (Some(a), Some(b)) = (got.get(i), made.expected.get(i)) {
                                let k = a.bytes().zip(b.bytes()).position(|(x, y)| x != y).unwrap_or(a.len().min(b.len()));
                                let lo = k.saturating_sub(200);
                                println!("   diff at char {k}: got ...{} / want ...{}", &a[lo..(k + 80).min(a.len())], &b[lo..(k + 80).min(b.len())]);
                            }
                            println!("   got: {:?}", got.get(i).map(|s| crate::fmt::clip(s)));
                            println!("  want: {:?}", made.expected.get(i).map(|s| crate::fmt::clip(s)));
                        }
                    }
                }
            }
        }
    }
    println!("selftest domain: reads={n} bad={bad}");
    if bad == 0 { 0 } else { 1 }
}
