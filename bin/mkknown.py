#!/usr/bin/env python3
"""Development aid: (re)generates the C15 `known` entries of known_findings.json from sweep results.
usage: bin/mkknown.py <replay-dir-glob>...   (e.g. '/root/.vp/runs/*/verif/sweep/C15-*/replays/*.json')
Rule: signatures are grouped by source file of the panic site. A file with >= 2 distinct panic
messages gets one entry `C15|<file>|panic|*` (the file's decoders/accessors are unchecked throughout);
otherwise the exact signature is listed. Allocation refusals are listed per file. Never run by a check."""
import json, glob, sys, collections, os
HERE = os.path.dirname(os.path.dirname(os.path.abspath(__file__)))
sigs = collections.defaultdict(lambda: {"n": 0, "example": ""})
for pat in sys.argv[1:]:
    for f in glob.glob(pat):
        j = json.load(open(f))
        if j.get("property") != "C15":
            continue
        s = j["violation"]["signature"]
        sigs[s]["n"] += j.get("occurrences", 1)
        if not sigs[s]["example"]:
            sigs[s]["example"] = j["violation"]["message"][:260]
byfile = collections.defaultdict(list)
for s in sigs:
    _, comp, cls, wit = s.split("|", 3)
    byfile[(comp, cls)].append((wit, s))
entries = []
for (comp, cls), lst in sorted(byfile.items()):
    if cls == "panic" and len(lst) >= 2 and not comp.endswith("(panic inside std)"):
        msgs = sorted(w for w, _ in lst)
        entries.append({"status": "known", "property": "C15", "signature": f"C15|{comp}|panic|*",
                        "what": f"{comp}: corrupt input reaches unchecked code that panics ({len(msgs)} distinct panic messages observed, e.g. " + "; ".join(f"'{m[:50]}'" for m in msgs[:4]) + "). Many sites; no small safe fix."})
    else:
        for wit, s in sorted(lst):
            what = (f"{comp}: a hostile 32-bit length/count field drives an allocation refused by the memory policy (single request > 1 GiB or live heap > 2 GiB): abort / memory exhaustion in the shipped library"
                    if cls == "abort" else f"{comp}: panic on corrupt input: {wit}")
            entries.append({"status": "known", "property": "C15", "signature": s, "what": what + " [e.g. " + sigs[s]["example"][:160] + "]"})
p = os.path.join(HERE, "known_findings.json")
j = json.load(open(p))
j["findings"] = [e for e in j["findings"] if not (e["property"] == "C15" and e["status"] == "known" and e.get("generated"))]
for e in entries:
    e["generated"] = True
j["findings"].extend(entries)
json.dump(j, open(p, "w"), indent=2)
print(len(sigs), "signatures ->", len(entries), "known entries")
