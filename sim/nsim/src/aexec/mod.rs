//! async-sim executor driver: a tokio `current_thread` runtime without I/O or time driver. The
//! scenario future is driven by `block_on` on the calling OS thread; the underlying
//! AsyncRead/AsyncWrite/AsyncSeek objects are the simulator's (seams::aio); blocking jobs are gated
//! tasks on the same runtime (hook H2), so everything runs on one thread and the plan decides every
//! poll result and every job completion order.
//!
//! Liveness: a poll budget turns a livelock into a contained panic; a missed wake-up leaves the
//! driverless runtime parked for good, which the worker watchdog reports as a hang of the announced
//! case.

use std::future::Future;

use crate::kernel::{PanicInfo, catch};
use crate::seams::aio::{AioPlan, SharedAio, install_gates, remove_gates};

pub fn run<F, R>(plan: &AioPlan, counters: SharedAio, f: impl FnOnce() -> F) -> Result<R, PanicInfo>
where
    F: Future<Output = R>,
{
    let rt = tokio::runtime::Builder::new_current_thread()
        .build()
        .expect("tokio runtime");
    install_gates(plan, counters);
    let r = catch(|| rt.block_on(f()));
    remove_gates();
    drop(rt);
    r
}
