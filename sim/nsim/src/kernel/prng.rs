//! The only source of randomness in the simulator: splitmix64-seeded xoshiro256**.
//! Every random decision of a run derives from one integer.

#[derive(Clone, Debug)]
pub struct Rng {
    s: [u64; 4],
}

pub fn splitmix64(x: &mut u64) -> u64 {
    *x = x.wrapping_add(0x9e37_79b9_7f4a_7c15);
    let mut z = *x;
    z = (z ^ (z >> 30)).wrapping_mul(0xbf58_476d_1ce4_e5b9);
    z = (z ^ (z >> 27)).wrapping_mul(0x94d0_49bb_1331_11eb);
    z ^ (z >> 31)
}

/// Mixes a master seed, a textual label and an index into a derived seed.
pub fn derive(master: u64, label: &str, idx: u64) -> u64 {
    let mut h = master ^ 0x6a09_e667_f3bc_c908;
    for b in label.bytes() {
        h = (h ^ b as u64).wrapping_mul(0x0000_0100_0000_01b3);
    }
    let mut x = h ^ idx.wrapping_mul(0x9e37_79b9_7f4a_7c15);
    let a = splitmix64(&mut x);
    let b = splitmix64(&mut x);
    a ^ b.rotate_left(17)
}

impl Rng {
    pub fn new(seed: u64) -> Self {
        let mut x = seed;
        let s = [
            splitmix64(&mut x),
            splitmix64(&mut x),
            splitmix64(&mut x),
            splitmix64(&mut x),
        ];
        Self { s }
    }

    pub fn fork(&mut self, label: &str) -> Rng {
        let seed = self.next_u64();
        Rng::new(derive(seed, label, 0))
    }

    pub fn next_u64(&mut self) -> u64 {
        let r = self.s[1].wrapping_mul(5).rotate_left(7).wrapping_mul(9);
        let t = self.s[1] << 17;
        self.s[2] ^= self.s[0];
        self.s[3] ^= self.s[1];
        self.s[1] ^= self.s[2];
        self.s[0] ^= self.s[3];
        self.s[2] ^= t;
        self.s[3] = self.s[3].rotate_left(45);
        r
    }

    /// Uniform in 0..n (n > 0).
    pub fn below(&mut self, n: u64) -> u64 {
        assert!(n > 0);
        // multiply-shift; bias is irrelevant here
        ((self.next_u64() as u128 * n as u128) >> 64) as u64
    }

    pub fn usize_below(&mut self, n: usize) -> usize {
        self.below(n as u64) as usize
    }

    /// Uniform in lo..=hi.
    pub fn range(&mut self, lo: u64, hi: u64) -> u64 {
        assert!(lo <= hi);
        lo + self.below(hi - lo + 1)
    }

    pub fn urange(&mut self, lo: usize, hi: usize) -> usize {
        self.range(lo as u64, hi as u64) as usize
    }

    pub fn irange(&mut self, lo: i64, hi: i64) -> i64 {
        assert!(lo <= hi);
        let span = (hi as i128 - lo as i128 + 1) as u128;
        let r = ((self.next_u64() as u128 * span) >> 64) as i128;
        (lo as i128 + r) as i64
    }

    /// True with probability num/den.
    pub fn chance(&mut self, num: u64, den: u64) -> bool {
        self.below(den) < num
    }

    pub fn bool(&mut self) -> bool {
        self.next_u64() & 1 == 1
    }

    pub fn pick<'a, T>(&mut self, xs: &'a [T]) -> &'a T {
        &xs[self.usize_below(xs.len())]
    }

    pub fn bytes(&mut self, n: usize) -> Vec<u8> {
        let mut v = Vec::with_capacity(n);
        while v.len() < n {
            let x = self.next_u64().to_le_bytes();
            let k = (n - v.len()).min(8);
            v.extend_from_slice(&x[..k]);
        }
        v
    }

    pub fn shuffle<T>(&mut self, xs: &mut [T]) {
        for i in (1..xs.len()).rev() {
            let j = self.usize_below(i + 1);
            xs.swap(i, j);
        }
    }
}

/// FNV-1a 64 over bytes, used for trace/workload hashes (never `std::hash`, whose keys are random).
#[derive(Clone, Copy)]
pub struct Fnv(pub u64);

impl Default for Fnv {
    fn default() -> Self {
        Fnv(0xcbf2_9ce4_8422_2325)
    }
}

impl Fnv {
    pub fn new() -> Self {
        Self::default()
    }
    pub fn bytes(&mut self, b: &[u8]) -> &mut Self {
        for &x in b {
            self.0 = (self.0 ^ x as u64).wrapping_mul(0x0000_0100_0000_01b3);
        }
        self
    }
    pub fn u64(&mut self, x: u64) -> &mut Self {
        self.bytes(&x.to_le_bytes())
    }
    pub fn str(&mut self, s: &str) -> &mut Self {
        self.bytes(s.as_bytes()).bytes(&[0xff])
    }
    pub fn get(&self) -> u64 {
        // final avalanche so that low bits are usable
        let mut x = self.0;
        splitmix64(&mut x)
    }
}

pub fn hash_bytes(b: &[u8]) -> u64 {
    Fnv::new().bytes(b).get()
}
