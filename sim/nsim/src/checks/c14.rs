//! C14 — writers never hide a sink failure and tolerate short writes.
//! One case = one generated model of one writer kind. The careful-user protocol is first run
//! fault-free to count the sink calls N; then every call index k (or a boundary-biased subset for
//! large N) is failed in turn, with varying error kinds, sticky or transient; byte budgets
//! (disk full mid-write) and Ok(0) likewise; plus short-write / Interrupted patterns without a
//! hard fault. Path APIs are pointed at /dev/full.

use std::sync::Arc;

use serde::{Deserialize, Serialize};
use serde_json::{Value, json};

use crate::{
    fmt::{
        End, Source, clip, first_diff,
        kinds::{self, FileSpec, Kind, Made, Model},
    },
    kernel::{Check, Finding, Fnv, Rng, RunCtx, Tier, Violation, catch, prng},
    seams::write::{Fault, Kind as EKind, Short, SimWrite, WEintr, WritePlan},
};

pub struct C14;

#[derive(Clone, Debug, Serialize, Deserialize, PartialEq)]
pub enum Faults {
    /// the complete one-fault enumeration described in the module doc
    Enumerate { seed: u64 },
    /// explicit sink plans
    List(Vec<WritePlan>),
    /// `<kind>::fs::write("/dev/full", index)` (index kinds only)
    DevFull,
}

#[derive(Clone, Debug, Serialize, Deserialize)]
pub struct Plan {
    pub kind: String,
    pub file: FileSpec,
    pub faults: Faults,
    /// kind "bgzf-mt": the multithreaded BGZF writer under thread-sim (C03 engine); `file` is unused
    #[serde(default)]
    pub mt: Option<super::c03::Plan>,
    /// for a narrowed "bgzf-mt" plan: the failing sink call indices to run (all if empty)
    #[serde(default)]
    pub mt_calls: Vec<u64>,
    /// SAM / SAM.gz / BAM / raw BAM: write through the noodles-util facade writer
    /// (`alignment::io::Writer`: header, records, `finish(&header)`)
    #[serde(default)]
    pub facade: bool,
    /// SAM / SAM.gz / VCF / VCF.gz: the writer made by `io::writer::Builder::build_from_writer`
    /// (`Writer<Box<dyn Write>>`: header, records, `get_mut().flush()`; the BGZF EOF block is written
    /// when it is dropped)
    #[serde(default)]
    pub builder: bool,
}

fn plans_for(n_calls: u64, total_bytes: usize, slow: bool, rng: &mut Rng) -> Vec<WritePlan> {
    let mut out = Vec::new();
    let large = total_bytes > 60_000 || slow;
    let ks: Vec<u64> = if n_calls <= 400 && !large {
        (0..n_calls).collect()
    } else {
        let edge = if large { 20 } else { 60 }.min(n_calls / 2);
        let mut v: Vec<u64> = (0..edge).collect();
        v.extend(n_calls - edge..n_calls);
        for _ in 0..(if large { 30 } else { 150 }) {
            v.push(rng.below(n_calls));
        }
        v.sort();
        v.dedup();
        v
    };
    for (i, &k) in ks.iter().enumerate() {
        let kind = EKind::ALL[(i + (k as usize)) % EKind::ALL.len()];
        out.push(WritePlan::with_fault(Fault::FailCall {
            k,
            kind,
            sticky: true,
        }));
        // transient failures at a rotating subset (every third position)
        if i % 3 == 0 {
            out.push(WritePlan::with_fault(Fault::FailCall {
                k,
                kind: EKind::ALL[(i + 2) % EKind::ALL.len()],
                sticky: false,
            }));
        }
        if i % 4 == 1 {
            out.push(WritePlan::with_fault(Fault::ZeroAt { k }));
        }
    }
    // disk-full budgets: around the beginning, the end, and seeded positions
    let mut budgets: Vec<usize> = vec![0, 1, 2, 17, 18, 27, 28];
    for d in [0usize, 1, 2, 8, 27, 28, 29] {
        budgets.push(total_bytes.saturating_sub(d));
    }
    for _ in 0..(if large { 8 } else { 24 }) {
        budgets.push(rng.usize_below(total_bytes + 1));
    }
    budgets.sort();
    budgets.dedup();
    for b in budgets {
        if b < total_bytes {
            out.push(WritePlan::with_fault(Fault::Budget { bytes: b }));
        }
    }
    // no hard fault: short writes and Interrupted
    if !large {
        out.push(WritePlan {
            short: Short::One,
            eintr: WEintr::None,
            fault: Fault::None,
        });
    }
    for _ in 0..(if large { 3 } else { 6 }) {
        out.push(WritePlan {
            short: match rng.below(3) {
                0 => Short::Random {
                    max: 1 + rng.usize_below(16),
                    seed: rng.next_u64(),
                },
                1 => Short::Random {
                    max: 1 + rng.usize_below(70_000),
                    seed: rng.next_u64(),
                },
                _ => Short::Sparse {
                    seed: rng.next_u64(),
                    one_in: 1 + rng.below(5),
                },
            },
            eintr: match rng.below(3) {
                0 => WEintr::None,
                1 => WEintr::Random {
                    seed: rng.next_u64(),
                    one_in: 2 + rng.below(5),
                },
                _ => WEintr::AtCalls(vec![0, 1, rng.below(n_calls.max(1))]),
            },
            fault: Fault::None,
        });
    }
    out
}

fn fault_name(p: &WritePlan) -> &'static str {
    match p.fault {
        Fault::None => "none",
        Fault::FailCall { sticky: true, .. } => "fail-call-sticky",
        Fault::FailCall { sticky: false, .. } => "fail-call-transient",
        Fault::ZeroAt { .. } => "write-returns-zero",
        Fault::Budget { .. } => "disk-full-budget",
    }
}

/// Decodes what the sink holds and compares it with the model (clause (b)).
fn decode_check(made: &Made, sink: Vec<u8>) -> Option<(String, String)> {
    let kind = made.spec.kind;
    let data = Arc::new(sink);
    if kind == Kind::Bgzf {
        let obs = kinds::read(kind, 0, Source::plain(data));
        let Model::Bytes { payload, .. } = &made.model else { unreachable!() };
        if obs.end != End::Eof || obs.bytes != *payload {
            return Some(("decode-mismatch".into(), format!("sink decodes to {} bytes, end {:?}; {} were written", obs.bytes.len(), obs.end, payload.len())));
        }
        return None;
    }
    // text kinds: the writer's output is compared through the reader with a read of the model text
    let obs = kinds::read(kind, 0, Source::plain(data));
    let got = kinds::content_items(&obs.items);
    let want: Vec<String> = if matches!(kind, Kind::Gff | Kind::Gtf) {
        // the writers percent-encode non-ASCII characters of attribute values
        made.expected.iter().map(|l| crate::genr::vcf::canonical_line(l)).collect()
    } else if kinds::has_model(kind, 0) {
        made.expected.clone()
    } else {
        kinds::content_items(&kinds::read(kind, 0, Source::plain(made.bytes.clone())).items)
    };
    if obs.end != End::Eof {
        return Some(("decode-error".into(), format!("all calls returned Ok but the sink does not decode: {:?} after {} items", obs.end, got.len())));
    }
    if let Some(i) = first_diff(&got, &want) {
        return Some((
            "decode-mismatch".into(),
            format!(
                "all calls returned Ok but item {i} differs: sink has {} / written {}",
                got.get(i).map(|s| clip(s)).unwrap_or_else(|| "<missing>".into()),
                want.get(i).map(|s| clip(s)).unwrap_or_else(|| "<missing>".into())
            ),
        ));
    }
    None
}

impl C14 {
    fn run_one(&self, made: &Made, reference: &[u8], wp: &WritePlan, ctx: &mut RunCtx) -> Option<Violation> {
        let kind = made.spec.kind;
        let sink = SimWrite::new(wp.clone());
        // builder-made writers: what the sink had seen when the last protocol call returned (the rest
        // happens in Drop, where nothing can be reported)
        let pre_drop_calls = std::rc::Rc::new(std::cell::Cell::new(None::<u64>));
        {
            let (p2, s2) = (pre_drop_calls.clone(), sink.clone());
            kinds::set_before_drop(Some(Box::new(move || p2.set(Some(s2.counters().calls)))));
        }
        let res = crate::kernel::fresh_thread_if(matches!(kind, Kind::Cram | Kind::Crai), || catch(|| kinds::write_to(kind, &made.model, sink.clone())));
        kinds::set_before_drop(None);
        let c = sink.counters();
        let s = &mut *ctx.stats;
        s.evaluations += 1;
        s.steps += c.calls;
        s.fault("W_SHORT", c.short);
        s.fault("W_EINTR", c.eintr);
        s.fault("W_ZERO", c.zero);
        match wp.fault {
            Fault::FailCall { .. } => s.fault("W_FAIL", c.failed.min(1)),
            Fault::Budget { .. } => s.fault("W_ENOSPC", c.failed.min(1)),
            _ => {}
        }
        let comp = kinds::writer_name(kind);
        let res = match res {
            Ok(r) => r,
            Err(p) => {
                return Some(Violation::new(
                    &comp,
                    "panic",
                    &p.witness(),
                    format!("writer panicked under sink plan {:?}: {} {}", wp.fault, p.location, p.message),
                ));
            }
        };
        let hard_fired = c.failed > 0 || c.zero > 0;
        if hard_fired && res.is_ok() {
            if let (Some(pre), Some(first)) = (pre_drop_calls.get(), c.first_fail_call) {
                if first >= pre {
                    // the fault struck only calls made while the writer was dropped
                    s.probe("fault_only_reachable_in_drop", 1);
                    return None;
                }
            }
        }
        if hard_fired {
            // (a) some protocol call at or after the failing sink call must return Err
            match res {
                Err(e) => {
                    let preserved = e.to_string().contains("nsim: injected sink error")
                        || e.get_ref().map(|r| r.to_string().contains("nsim: injected")).unwrap_or(false);
                    s.probe_if("error_identity_preserved", preserved);
                    s.probe("sink_failure_reported", 1);
                    None
                }
                Ok(()) => Some(Violation::new(
                    &comp,
                    "hidden-failure",
                    fault_name(wp),
                    format!(
                        "sink plan {:?}: the sink failed (first at call {:?}, {} failures, {} zero-length writes) but every protocol call incl. finish returned Ok; sink holds {} of {} bytes",
                        wp.fault,
                        c.first_fail_call,
                        c.failed,
                        c.zero,
                        sink.data().len(),
                        reference.len()
                    ),
                )),
            }
        } else {
            // (b) no hard fault consumed
            match res {
                Err(e) => {
                    // Interrupted from write must be retried; short writes must be completed
                    Some(Violation::new(
                        &comp,
                        "spurious-error",
                        if c.eintr > 0 { "eintr" } else { "short-writes" },
                        format!("sink without hard fault ({} short writes, {} Interrupted) but the protocol failed: {e}", c.short, c.eintr),
                    ))
                }
                Ok(()) => {
                    let data = sink.data();
                    if data != reference {
                        let at = data.iter().zip(reference).position(|(a, b)| a != b).unwrap_or(data.len().min(reference.len()));
                        return Some(Violation::new(
                            &comp,
                            "output-differs",
                            if c.eintr > 0 { "eintr" } else { "short-writes" },
                            format!(
                                "{} short writes, {} Interrupted: sink holds {} bytes, plain run {} bytes; first difference at {at}",
                                c.short,
                                c.eintr,
                                data.len(),
                                reference.len()
                            ),
                        ));
                    }
                    s.probe("identical_output_under_short_writes", (c.short > 0 || c.eintr > 0) as u64);
                    None
                }
            }
        }
    }
}

impl C14 {
    /// The multithreaded BGZF writer: fault-free run under thread-sim counts the sink calls N; then
    /// every call k < N fails once (sticky and transient alternating), under rotating schedules.
    fn run_mt(&self, p: &Plan, mp: &super::c03::Plan, ctx: &mut RunCtx) -> Vec<Finding> {
        use super::c03::{C03, MtFault, Sched};
        let mut findings = Vec::new();
        let base = C03.run(mp, ctx.stats);
        ctx.stats.kind("bgzf-mt");
        if let Some(v) = base.violation {
            findings.push(Finding { violation: v, plan: serde_json::to_value(p).unwrap() });
            return findings;
        }
        let n = base.sink_calls;
        let all = n <= 80;
        let ks: Vec<u64> = if !p.mt_calls.is_empty() {
            p.mt_calls.clone()
        } else if all {
            (0..n).collect()
        } else {
            // first/last 20 calls and 40 seeded ones
            let seed = match p.faults {
                Faults::Enumerate { seed } => seed,
                _ => 1,
            };
            let mut rng = Rng::new(seed);
            let mut v: Vec<u64> = (0..20).collect();
            v.extend(n - 20..n);
            for _ in 0..40 {
                v.push(rng.below(n));
            }
            v.sort();
            v.dedup();
            v
        };
        let scheds = [Sched::Random, Sched::FillThenLifo, Sched::Pct { depth: 2 }, Sched::BackgroundFirst];
        let mut seen: std::collections::BTreeSet<String> = Default::default();
        for &k in &ks {
            let mut q = mp.clone();
            q.fault = MtFault::SinkFail { k, sticky: k % 2 == 0 };
            if p.mt_calls.is_empty() {
                q.sched = scheds[(k % 4) as usize].clone();
                q.sched_seed = mp.sched_seed ^ k;
            }
            let out = C03.run(&q, ctx.stats);
            ctx.stats.nontrivial(Fnv::new().u64(super::c01::plan_hash(&q)).get());
            if let Some(mut v) = out.violation {
                v.component = "bgzf-mt:writer".into();
                if seen.insert(v.signature("C14")) {
                    let mut np = p.clone();
                    let mut q2 = q.clone();
                    q2.fault = MtFault::None;
                    q2.replay = Some(out.decisions);
                    np.mt = Some(q2);
                    np.mt_calls = vec![k];
                    findings.push(Finding { violation: v, plan: serde_json::to_value(np).unwrap() });
                }
            }
        }
        if p.mt_calls.is_empty() && all {
            ctx.stats.exhaustive.insert(format!("every one of the {n} sink calls of the multithreaded BGZF writer failing (plan {:016x})", super::c01::plan_hash(mp)));
            ctx.stats.probe("writers_enumerated_at_every_call", 1);
        }
        findings
    }
}

fn devfull(kind: Kind, model: &Model) -> Option<std::io::Result<()>> {
    fs_write(kind, model, std::path::Path::new("/dev/full"))
}

/// `<index>::fs::write(path, index)` of the kind's crate.
fn fs_write(kind: Kind, model: &Model, path: &std::path::Path) -> Option<std::io::Result<()>> {
    #[allow(non_snake_case)]
    let P = path;
    Some(match (kind, model) {
        (Kind::Crai, Model::Crai(i)) => noodles_cram::crai::fs::write(P, i),
        (Kind::Bai, Model::Bai(i)) => noodles_bam::bai::fs::write(P, i),
        (Kind::Csi, Model::Csi(i)) => noodles_csi::fs::write(P, i),
        (Kind::Tabix, Model::Tabix(i)) => noodles_tabix::fs::write(P, i),
        (Kind::Gzi, Model::Gzi(i)) => noodles_bgzf::gzi::fs::write(P, i),
        (Kind::Fai, Model::Fai(i)) => noodles_fasta::fai::fs::write(P, i),
        _ => return None,
    })
}

/// The real file system with a quota: `fs::write` to a real temporary file while RLIMIT_FSIZE (soft)
/// caps the file at `budget` bytes — the kernel accepts bytes up to the cap and fails the next write
/// with EFBIG (SIGXFSZ is ignored). Returns (result of fs::write, bytes the file holds) or None if
/// the kind has no fs::write.
fn fs_write_with_quota(kind: Kind, model: &Model, budget: Option<u64>, tag: u64) -> Option<(std::io::Result<()>, u64)> {
    let path = std::env::temp_dir().join(format!("nsim-quota-{}-{tag}", std::process::id()));
    let mut old = libc::rlimit { rlim_cur: 0, rlim_max: 0 };
    if let Some(b) = budget {
        // SAFETY: plain libc calls on this process' own limits / signal dispositions; the worker is
        // single-threaded here and writes no other regular file while the limit is lowered
        unsafe {
            libc::signal(libc::SIGXFSZ, libc::SIG_IGN);
            libc::getrlimit(libc::RLIMIT_FSIZE, &mut old);
            let new = libc::rlimit { rlim_cur: b, rlim_max: old.rlim_max };
            libc::setrlimit(libc::RLIMIT_FSIZE, &new);
        }
    }
    let r = fs_write(kind, model, &path);
    if budget.is_some() {
        // SAFETY: as above
        unsafe {
            libc::setrlimit(libc::RLIMIT_FSIZE, &old);
        }
    }
    let len = std::fs::metadata(&path).map(|m| m.len()).unwrap_or(0);
    let _ = std::fs::remove_file(&path);
    r.map(|r| (r, len))
}

impl Check for C14 {
    fn id(&self) -> &'static str {
        "C14"
    }
    fn level(&self) -> &'static str {
        "fault_enumeration"
    }
    fn announce(&self) -> bool {
        true
    }
    fn n_cases(&self, tier: Tier) -> u64 {
        let k = kinds::C14_KINDS.len() as u64;
        match tier {
            Tier::Quick => 60 * k,
            Tier::Thorough => 2500 * k,
        }
    }
    fn plan(&self, master: u64, idx: u64, _tier: Tier) -> Value {
        let mut rng = Rng::new(prng::derive(master, "C14", idx));
        let k = kinds::C14_KINDS.len() as u64;
        let kind = kinds::C14_KINDS[(idx % k) as usize];
        let round = idx / k;
        let size_class = match round % 8 {
            0 | 1 => 0,
            2..=4 => 1,
            5 | 6 => 2,
            _ => 3,
        };
        let faults = if round % 12 == 11 && (kinds::index_kind(kind) || matches!(kind, Kind::Fai | Kind::Crai)) {
            Faults::DevFull
        } else {
            Faults::Enumerate { seed: rng.next_u64() }
        };
        // every 20th case: the multithreaded BGZF writer, every sink call failing in turn
        if idx % 20 == 19 {
            let c03plan = super::c03::C03.plan(master ^ 0x14, idx, _tier);
            if let Ok(mut mp) = serde_json::from_value::<super::c03::Plan>(c03plan) {
                if let super::c03::Scenario::Writer { finish, .. } = &mut mp.scenario {
                    *finish = true;
                    mp.fault = super::c03::MtFault::None;
                    return serde_json::to_value(Plan {
                        kind: "bgzf-mt".into(),
                        file: FileSpec { kind: Kind::Bgzf, size_class: 0, seed: 0 },
                        faults: Faults::Enumerate { seed: rng.next_u64() },
                        mt: Some(mp),
                        mt_calls: Vec::new(),
                        facade: false,
                        builder: false,
                    })
                    .unwrap();
                }
            }
        }
        serde_json::to_value(Plan {
            kind: kind.name().into(),
            file: FileSpec {
                kind,
                size_class,
                seed: rng.next_u64(),
            },
            faults,
            mt: None,
            mt_calls: Vec::new(),
            // every third round of an alignment kind goes through the noodles-util facade writer
            facade: kinds::facade_writer_kind(kind) && round % 3 == 2,
            builder: kinds::builder_writer_kind(kind) && round % 3 == 1,
        })
        .unwrap()
    }
    fn execute(&self, plan: &Value, ctx: &mut RunCtx) -> Vec<Finding> {
        let p: Plan = serde_json::from_value(plan.clone()).expect("bad C14 plan");
        // the model file itself is always built by the format crate's own writer
        kinds::set_facade_writer(false);
        kinds::set_builder_writer(false);
        if let Some(mp) = &p.mt {
            return self.run_mt(&p, mp, ctx);
        }
        let made = match kinds::make(&p.file) {
            Ok(m) => m,
            Err(_) => {
                ctx.stats.probe("workload_unbuildable", 1);
                return Vec::new();
            }
        };
        let kind = p.file.kind;
        // which writer protocol `kinds::write_to` uses on this thread for the rest of the case
        kinds::set_facade_writer(p.facade);
        kinds::set_builder_writer(p.builder);
        ctx.stats.probe_if("builder_made_writer", p.builder);
        ctx.stats.kind(if p.facade { "alignment kinds through the noodles-util facade writer" } else { kind.name() });
        ctx.stats.probe_if("noodles_util_facade_writer", p.facade);
        let mut findings = Vec::new();
        let mut seen: std::collections::BTreeSet<String> = Default::default();
        let mut report = |v: Violation, faults: Faults, findings: &mut Vec<Finding>| {
            if seen.insert(v.signature("C14")) {
                findings.push(Finding {
                    violation: v,
                    plan: serde_json::to_value(Plan {
                        kind: p.kind.clone(),
                        file: p.file.clone(),
                        faults,
                        mt: None,
                        mt_calls: Vec::new(),
                        facade: p.facade,
                        builder: p.builder,
                    })
                    .unwrap(),
                });
            }
        };
        if p.faults == Faults::DevFull {
            if let Some(r) = devfull(kind, &made.model) {
                ctx.stats.evaluations += 1;
                ctx.stats.fault("FS_DEVFULL", 1);
                ctx.stats.nontrivial(Fnv::new().u64(prng::hash_bytes(&made.bytes)).str("devfull").get());
                if r.is_ok() && !made.bytes.is_empty() {
                    report(
                        Violation::new(
                            &format!("{}::fs::write", kind.name()),
                            "hidden-failure",
                            "ENOSPC",
                            format!("{}::fs::write(\"/dev/full\", index) returned Ok(()) although no byte of the {} byte index can be stored", kind.name(), made.bytes.len()),
                        ),
                        Faults::DevFull,
                        &mut findings,
                    );
                }
            }
            // (d') the same call on a real file under a file-size quota that runs out at the end, in
            // the middle and at the start of the file
            if let Some((Ok(()), full)) = fs_write_with_quota(kind, &made.model, None, 0) {
                let mut budgets: Vec<u64> = [0, 1, full / 2, full.saturating_sub(29), full.saturating_sub(28), full.saturating_sub(27), full.saturating_sub(1)]
                    .into_iter()
                    .filter(|&b| b < full)
                    .collect();
                budgets.sort();
                budgets.dedup();
                for (i, b) in budgets.into_iter().enumerate() {
                    let Some((r, len)) = fs_write_with_quota(kind, &made.model, Some(b), 1 + i as u64) else { break };
                    ctx.stats.evaluations += 1;
                    if len > b {
                        // the quota did not bite (file system without RLIMIT_FSIZE semantics)
                        ctx.stats.probe("fs_quota_not_effective", 1);
                        continue;
                    }
                    ctx.stats.fault("FS_QUOTA", 1);
                    ctx.stats.nontrivial(Fnv::new().u64(prng::hash_bytes(&made.bytes)).str("quota").u64(b).get());
                    if r.is_ok() {
                        report(
                            Violation::new(
                                &format!("{}::fs::write", kind.name()),
                                "hidden-failure",
                                "EFBIG",
                                format!("{}::fs::write(path, index) returned Ok(()) although the file-size limit of {b} bytes left only {len} of the {full} bytes of the index on disk", kind.name()),
                            ),
                            Faults::DevFull,
                            &mut findings,
                        );
                    }
                }
            }
            return findings;
        }
        // fault-free reference run on the simulated sink: counts the calls; (b) decodes to the model
        let sink0 = SimWrite::new(WritePlan::plain());
        let pre_drop_len = std::rc::Rc::new(std::cell::Cell::new(None::<usize>));
        {
            let (p2, s2) = (pre_drop_len.clone(), sink0.clone());
            kinds::set_before_drop(Some(Box::new(move || p2.set(Some(s2.data().len())))));
        }
        let r0 = crate::kernel::fresh_thread_if(matches!(kind, Kind::Cram | Kind::Crai), || catch(|| kinds::write_to(kind, &made.model, sink0.clone())));
        kinds::set_before_drop(None);
        match r0 {
            Ok(Ok(())) => {}
            Ok(Err(e)) => {
                return vec![Finding {
                    violation: Violation::new(&kinds::writer_name(kind), "spurious-error", "fault-free", format!("the protocol failed on a fault-free sink: {e}")),
                    plan: plan.clone(),
                }];
            }
            Err(pn) => {
                return vec![Finding {
                    violation: Violation::new(&kinds::writer_name(kind), "panic", &pn.witness(), format!("writer panicked on a fault-free sink: {} {}", pn.location, pn.message)),
                    plan: plan.clone(),
                }];
            }
        }
        let c0 = sink0.counters();
        let reference = sink0.data();
        ctx.stats.evaluations += 1;
        ctx.stats.probe("fault_free_configuration", 1);
        // builder-made writers: when `get_mut().flush()` has returned Ok the destination holds
        // everything but the BGZF EOF block (28 bytes), which only Drop can write
        if let Some(pre) = pre_drop_len.get() {
            let want = reference.len() - if matches!(kind, Kind::SamGz | Kind::VcfGz) { 28.min(reference.len()) } else { 0 };
            if pre != want {
                report(
                    Violation::new(&kinds::writer_name(kind), "data-left-behind", "after-flush", format!("every call incl. get_mut().flush() returned Ok, but the destination held {pre} bytes then; after the drop it holds {} (only the 28-byte EOF block may be written in Drop)", reference.len())),
                    Faults::List(vec![WritePlan::plain()]),
                    &mut findings,
                );
            }
        }
        // the writer output decodes to exactly what was written
        let written: Vec<u8> = reference.clone();
        if let Some((class, msg)) = decode_check(&made, written) {
            report(
                Violation::new(&kinds::writer_name(kind), &class, "fault-free", msg),
                Faults::List(vec![WritePlan::plain()]),
                &mut findings,
            );
        }
        // (c) a BGZF writer dropped without finishing (fault-free sink) still emits the staged data
        // and the EOF block — also when try_finish() was called earlier and more data followed
        if let (Kind::Bgzf, Model::Bytes { payload, .. }) = (kind, &made.model) {
            use super::c01::{End, Op, run_history};
            let n = payload.len();
            let tail = n.min(1 + n / 7).min(60_000);
            let histories: [Vec<Op>; 3] = [
                vec![Op::WriteAll { len: n }],
                vec![Op::WriteAll { len: n - tail }, Op::TryFinish, Op::WriteAll { len: tail }],
                vec![Op::WriteAll { len: n - tail }, Op::Flush, Op::TryFinish, Op::Write { len: tail }],
            ];
            for (hi, ops) in histories.iter().enumerate() {
                ctx.stats.evaluations += 1;
                let r = catch(|| run_history(None, payload, ops, End::Drop, WritePlan::plain()));
                let bad = match r {
                    Ok(Ok(h)) => match crate::model::bgzf::walk(&h.sink) {
                        Ok(w) if w.ends_with_eof_marker && w.data[..] == payload[..h.accepted] && h.accepted == n => None,
                        Ok(w) => Some(format!("after the drop the sink decodes to {} of {} bytes, EOF marker last: {}", w.data.len(), n, w.ends_with_eof_marker)),
                        Err(e) => Some(format!("after the drop the sink is not well-formed BGZF: {e}")),
                    },
                    Ok(Err((c, m))) => Some(format!("{c}: {m}")),
                    Err(pn) => Some(format!("panic at {}: {}", pn.location, pn.message)),
                };
                if let Some(msg) = bad {
                    report(
                        Violation::new("bgzf:writer", "drop-loses-data", ["drop", "try_finish-write-drop", "flush-try_finish-write-drop"][hi], msg),
                        Faults::List(vec![WritePlan::plain()]),
                        &mut findings,
                    );
                }
                ctx.stats.probe("bgzf_drop_without_finish_checked", 1);
            }
            // ... and a writer dropped over a failing sink (after a failed call, or failing only
            // inside Drop): Drop has nobody to report to and the statement asks nothing of it, so a
            // panic there is only counted (probe), not judged
            for ops in histories.iter().take(2) {
                for k in 0..8u64 {
                    ctx.stats.evaluations += 1;
                    let wp = WritePlan::with_fault(Fault::FailCall { k, kind: EKind::ALL[(k % 5) as usize], sticky: k % 2 == 0 });
                    let panicked = catch(|| run_history(None, payload, ops, End::Drop, wp.clone())).is_err();
                    ctx.stats.probe_if("bgzf_drop_over_failing_sink_panicked", panicked);
                    ctx.stats.probe("bgzf_drop_over_failing_sink", 1);
                }
            }
        }
        let plans: Vec<WritePlan> = match &p.faults {
            Faults::Enumerate { seed } => {
                let mut rng = Rng::new(*seed);
                // writers that cost tens of milliseconds per run (CRAM with bzip2/lzma/fqzcomp
                // blocks or many containers) get the reduced position set; decided from the plan,
                // never from a clock
                let slow = match &made.model {
                    Model::Cram { opts, model, .. } => matches!(opts.encoder, 3 | 4 | 9) || model.records.len() > 40,
                    _ => false,
                };
                plans_for(c0.calls, reference.len(), slow, &mut rng)
            }
            Faults::List(v) => v.clone(),
            Faults::DevFull => unreachable!(),
        };
        let file_hash = prng::hash_bytes(&reference);
        let slow_cram = matches!(&made.model, Model::Cram { opts, model, .. } if matches!(opts.encoder, 3 | 4 | 9) || model.records.len() > 40);
        let exhaustive = matches!(p.faults, Faults::Enumerate { .. }) && c0.calls <= 400 && reference.len() <= 60_000 && !slow_cram;
        for wp in &plans {
            // announced: a writer run that never returns is attributed to its sink plan, and the
            // watchdog measures one run, not the whole case
            if !ctx.begin_sub(|| {
                serde_json::to_value(Plan {
                    kind: p.kind.clone(),
                    file: p.file.clone(),
                    faults: Faults::List(vec![wp.clone()]),
                    mt: None,
                    mt_calls: Vec::new(),
                        facade: p.facade,
                        builder: p.builder,
                })
                .unwrap()
            }) {
                continue;
            }
            if let Some(v) = self.run_one(&made, &reference, wp, ctx) {
                report(v, Faults::List(vec![wp.clone()]), &mut findings);
            }
            if wp.fault != Fault::None || wp.short != Short::Full || wp.eintr != WEintr::None {
                ctx.stats.nontrivial(Fnv::new().u64(file_hash).str(&serde_json::to_string(wp).unwrap()).get());
            }
        }
        if exhaustive {
            ctx.stats.exhaustive.insert(format!(
                "every one of the {} sink calls of the {} writer failing (file {:016x})",
                c0.calls,
                kind.name(),
                file_hash
            ));
            ctx.stats.probe("writers_enumerated_at_every_call", 1);
        }
        if ctx.stats.want_sample() && c0.calls > 3 {
            ctx.stats.sample(|| json!({"file": p.file, "sink_calls": c0.calls, "bytes": reference.len(), "sink_plans": plans.len(), "example_plan": plans.get(plans.len() / 3)}));
        }
        findings
    }
    fn shrink(&self, plan: &Value) -> Vec<Value> {
        let Ok(p) = serde_json::from_value::<Plan>(plan.clone()) else {
            return Vec::new();
        };
        let mut out = Vec::new();
        if let Faults::List(v) = &p.faults {
            if v.len() == 1 {
                // same sink plan class on a smaller model: let the enumeration find it again
                for sc in 0..p.file.size_class {
                    let mut q = p.clone();
                    q.file.size_class = sc;
                    q.faults = Faults::Enumerate { seed: 1 };
                    out.push(serde_json::to_value(q).unwrap());
                }
                let wp = &v[0];
                if let Fault::FailCall { k, sticky, .. } = wp.fault {
                    let mut w2 = wp.clone();
                    w2.fault = Fault::FailCall {
                        k,
                        kind: EKind::Other,
                        sticky,
                    };
                    if &w2 != wp {
                        let mut q = p.clone();
                        q.faults = Faults::List(vec![w2]);
                        out.push(serde_json::to_value(q).unwrap());
                    }
                }
                if wp.short != Short::Full {
                    let mut w2 = wp.clone();
                    w2.short = Short::Full;
                    let mut q = p.clone();
                    q.faults = Faults::List(vec![w2]);
                    out.push(serde_json::to_value(q).unwrap());
                }
                if wp.eintr != WEintr::None {
                    let mut w2 = wp.clone();
                    w2.eintr = WEintr::None;
                    let mut q = p.clone();
                    q.faults = Faults::List(vec![w2]);
                    out.push(serde_json::to_value(q).unwrap());
                }
            }
        }
        out
    }
    fn rule(&self) -> String {
        "one evaluation = one run of a writer kind's careful-user protocol (header, records, finishing calls; DESIGN.md §12) against the simulated sink under one sink plan. Per generated model the fault-free run counts the sink's write/flush calls N; then EVERY call index k < N (N <= 400; else first/last 60 + 150 seeded) fails once (sticky, error kind rotating over Other/BrokenPipe/StorageFull/PermissionDenied/TimedOut; every third also transient; every fourth as Ok(0)), ~35 byte budgets (disk full mid-write, incl. around the BGZF EOF marker), and 7 short-write/Interrupted patterns without hard fault. Oracle: (a) a consumed hard fault => the protocol returns Err (silence = hidden-failure); (b) no hard fault => Ok and sink bytes identical to the plain run, which itself decodes with the noodles reader to exactly the model; (d) <index>::fs::write(\"/dev/full\") returns Err. distinct_nontrivial = distinct (output hash, sink plan) with a fault or short/EINTR pattern configured".into()
    }
    fn assumptions(&self) -> Vec<String> {
        vec![
            "after the first Err the harness issues no further call except the drop (a failed writer need not stay usable)".into(),
            "Interrupted is injected on write calls only (flush of a file/pipe/socket is not an interruptible system call and nothing in std retries it)".into(),
            "whether the returned error still carries the injected marker/kind is a probe, not judged".into(),
            "/dev/full is the real kernel device".into(),
        ]
    }
    fn components(&self) -> Value {
        json!({"real": ["all noodles writers of the listed kinds incl. nested BGZF and BufWriter layers; noodles readers for the decode oracle; /dev/full"], "stub": ["byte sink (SimWrite)"]})
    }
    fn expected_probes(&self) -> Vec<&'static str> {
        vec![
            "sink_failure_reported",
            "error_identity_preserved",
            "identical_output_under_short_writes",
            "writers_enumerated_at_every_call",
            "fault_free_configuration",
        ]
    }
}
