//! C01 — BGZF write/read identity and well-formed output, over write/flush/finish/drop histories.

use std::io::{Read, Write};

use noodles_bgzf as bgzf;
use serde::{Deserialize, Serialize};
use serde_json::{Value, json};

use crate::{
    genr::bytes::{self, CLASSES, Payload},
    kernel::{Check, Finding, Rng, RunCtx, Tier, Violation, catch, prng},
    model::bgzf::{Flat, walk},
    seams::write::{Short, SimWrite, WritePlan},
};

pub struct C01;

#[derive(Clone, Debug, Serialize, Deserialize, PartialEq)]
pub enum Op {
    /// one `write` call offering `len` bytes
    Write { len: usize },
    /// `write_all` of `len` bytes
    WriteAll { len: usize },
    Flush,
    /// sample `virtual_position()`
    Tell,
    /// `try_finish()` in the middle of the history (the writer stays usable: an EOF block is
    /// emitted and later writes append after it); multithreaded/async writers treat it as flush
    TryFinish,
}

#[derive(Clone, Copy, Debug, Serialize, Deserialize, PartialEq, Eq)]
pub enum End {
    Finish,
    Drop,
    TryFinishIntoInner,
    /// `try_finish()` and then the value is dropped (the documented way to finish bam/bcf writers)
    TryFinishDrop,
}

#[derive(Clone, Debug, Serialize, Deserialize)]
pub struct Plan {
    pub kind: String,
    /// None = `Writer::new` (default level)
    pub level: Option<u8>,
    pub payload: Payload,
    pub ops: Vec<Op>,
    pub end: End,
    pub sink_short: Short,
}

pub fn gen_history(rng: &mut Rng, max_ops: usize, max_total: usize) -> Vec<Op> {
    let n_ops = match rng.below(10) {
        0 => 0,
        1..=3 => 1 + rng.usize_below(3),
        _ => 1 + rng.usize_below(max_ops),
    };
    let mut ops = Vec::with_capacity(n_ops);
    let mut total = 0usize;
    let style = rng.below(4);
    for _ in 0..n_ops {
        let r = rng.below(100);
        if r < 62 {
            let budget = max_total.saturating_sub(total);
            let len = match style {
                0 => rng.usize_below(300),
                1 => bytes::interesting_len(rng, 200_000),
                2 => rng.usize_below(70_000),
                _ => match rng.below(4) {
                    0 => rng.usize_below(10),
                    1 => 65_000 + rng.usize_below(1000),
                    2 => rng.usize_below(200_000),
                    _ => rng.usize_below(5000),
                },
            }
            .min(budget);
            total += len;
            if rng.chance(1, 4) {
                ops.push(Op::Write { len });
            } else {
                ops.push(Op::WriteAll { len });
            }
        } else if r < 80 {
            ops.push(Op::Flush);
        } else if r < 84 {
            ops.push(Op::TryFinish);
        } else {
            ops.push(Op::Tell);
        }
    }
    ops
}

/// Histories for writers without `try_finish` (multithreaded, async): it becomes a flush, in the
/// writer under test and in its single-threaded reference alike.
pub fn without_try_finish(ops: &[Op]) -> Vec<Op> {
    ops.iter()
        .map(|o| if *o == Op::TryFinish { Op::Flush } else { o.clone() })
        .collect()
}

pub fn total_len(ops: &[Op]) -> usize {
    ops.iter()
        .map(|o| match o {
            Op::Write { len } | Op::WriteAll { len } => *len,
            _ => 0,
        })
        .sum()
}

pub fn gen_short(rng: &mut Rng) -> Short {
    match rng.below(8) {
        0 => Short::One,
        1 => Short::Random {
            max: 1 + rng.usize_below(64),
            seed: rng.next_u64(),
        },
        2 => Short::Random {
            max: 1 + rng.usize_below(70_000),
            seed: rng.next_u64(),
        },
        3 => Short::Sparse {
            seed: rng.next_u64(),
            one_in: 1 + rng.below(6),
        },
        _ => Short::Full,
    }
}

pub struct HistoryResult {
    /// bytes the writer accepted, in order (= prefix of the payload)
    pub accepted: usize,
    /// (virtual position, model cursor) samples
    pub tells: Vec<(u64, u64)>,
    pub sink: Vec<u8>,
    pub staged_at_end: bool,
    pub sink_short_writes: u64,
}

/// Drives a single-threaded BGZF writer through a history. `Err` = an invariant broke.
pub fn run_history(
    plan_level: Option<u8>,
    data: &[u8],
    ops: &[Op],
    end: End,
    sink_plan: WritePlan,
) -> Result<HistoryResult, (String, String)> {
    let sink = SimWrite::new(sink_plan);
    let mut w = match plan_level {
        None => bgzf::io::Writer::new(sink.clone()),
        Some(l) => {
            let level = bgzf::io::writer::CompressionLevel::new(l)
                .ok_or(("harness".to_string(), format!("bad level {l}")))?;
            bgzf::io::writer::Builder::default()
                .set_compression_level(level)
                .build_from_writer(sink.clone())
        }
    };
    let mut cur = 0usize;
    let mut tells = Vec::new();
    for (i, op) in ops.iter().enumerate() {
        match op {
            Op::Write { len } => {
                let len = (*len).min(data.len() - cur);
                let n = w
                    .write(&data[cur..cur + len])
                    .map_err(|e| ("write-error".to_string(), format!("op {i}: write failed on a fault-free sink: {e}")))?;
                if n > len {
                    return Err(("write-overrun".into(), format!("op {i}: write({len}) returned {n}")));
                }
                if n == 0 && len > 0 {
                    return Err(("write-zero".into(), format!("op {i}: write({len}) returned 0")));
                }
                cur += n;
            }
            Op::WriteAll { len } => {
                let len = (*len).min(data.len() - cur);
                w.write_all(&data[cur..cur + len])
                    .map_err(|e| ("write-error".to_string(), format!("op {i}: write_all failed on a fault-free sink: {e}")))?;
                cur += len;
            }
            Op::Flush => {
                w.flush()
                    .map_err(|e| ("write-error".to_string(), format!("op {i}: flush failed on a fault-free sink: {e}")))?;
            }
            Op::Tell => {
                tells.push((u64::from(w.virtual_position()), cur as u64));
            }
            Op::TryFinish => {
                w.try_finish()
                    .map_err(|e| ("write-error".to_string(), format!("op {i}: try_finish failed on a fault-free sink: {e}")))?;
            }
        }
        let accepted = sink.0.lock().unwrap().data.len() as u64;
        if w.position() != accepted {
            return Err((
                "position-mismatch".into(),
                format!("op {i}: position() = {} but the sink holds {accepted} bytes", w.position()),
            ));
        }
    }
    let staged_at_end = u64::from(w.virtual_position()) & 0xffff != 0;
    match end {
        End::Finish => {
            w.finish()
                .map_err(|e| ("write-error".to_string(), format!("finish failed on a fault-free sink: {e}")))?;
        }
        End::Drop => drop(w),
        End::TryFinishIntoInner => {
            w.try_finish()
                .map_err(|e| ("write-error".to_string(), format!("try_finish failed on a fault-free sink: {e}")))?;
            let _ = w.into_inner();
        }
        End::TryFinishDrop => {
            w.try_finish()
                .map_err(|e| ("write-error".to_string(), format!("try_finish failed on a fault-free sink: {e}")))?;
            drop(w);
        }
    }
    let c = sink.counters();
    Ok(HistoryResult {
        accepted: cur,
        tells,
        sink: sink.data(),
        staged_at_end,
        sink_short_writes: c.short,
    })
}

fn viol(class: &str, witness: &str, msg: String) -> Violation {
    Violation::new("bgzf::io::Writer", class, witness, msg)
}

impl C01 {
    fn run(&self, plan: &Plan, ctx: &mut RunCtx) -> Option<Violation> {
        let data = plan.payload.bytes();
        let sink_plan = WritePlan {
            short: plan.sink_short.clone(),
            ..WritePlan::plain()
        };
        let r = match catch(|| run_history(plan.level, &data, &plan.ops, plan.end, sink_plan)) {
            Ok(Ok(r)) => r,
            Ok(Err((class, msg))) => return Some(viol(&class, "invariant", msg)),
            Err(p) => {
                return Some(viol("panic", &p.witness(), format!("writer panicked at {}: {}", p.location, p.message)));
            }
        };
        let model = &data[..r.accepted];
        ctx.stats.evaluations += 1;
        ctx.stats.steps += plan.ops.len() as u64 + 1;
        ctx.stats.fault("W_SHORT", r.sink_short_writes);

        // (2) independent walker
        let w = match walk(&r.sink) {
            Ok(w) => w,
            Err(e) => return Some(viol("malformed-output", "walker-reject", e)),
        };
        if !w.ends_with_eof_marker {
            return Some(viol(
                "malformed-output",
                "missing-eof-marker",
                format!("the {} byte file does not end with the 28-byte EOF marker", r.sink.len()),
            ));
        }
        if w.data != model {
            let at = w.data.iter().zip(model).position(|(a, b)| a != b).unwrap_or(w.data.len().min(model.len()));
            return Some(viol(
                "content-mismatch",
                "independent-inflate",
                format!(
                    "independent inflate gives {} bytes, model has {}; first difference at {at}",
                    w.data.len(),
                    model.len()
                ),
            ));
        }
        // (1) noodles reader
        let mut back = Vec::new();
        let res = catch(|| bgzf::io::Reader::new(&r.sink[..]).read_to_end(&mut back));
        match res {
            Ok(Ok(_)) => {}
            Ok(Err(e)) => return Some(viol("read-back-error", "reader-error", format!("bgzf::io::Reader failed on the writer's output: {e}"))),
            Err(p) => return Some(viol("panic", &p.witness(), format!("reader panicked at {}: {}", p.location, p.message))),
        }
        if back != model {
            let at = back.iter().zip(model).position(|(a, b)| a != b).unwrap_or(back.len().min(model.len()));
            return Some(viol(
                "content-mismatch",
                "noodles-reader",
                format!("read back {} bytes, wrote {}; first difference at {at}", back.len(), model.len()),
            ));
        }
        // writer-reported positions denote the model cursor (shared with C02)
        let flat = Flat::from_walk(w, r.sink.len());
        for (vp, cur) in &r.tells {
            let d = flat.denote(vp >> 16, (vp & 0xffff) as u16);
            if d != Some(*cur) {
                return Some(viol(
                    "writer-position",
                    "tell-denotes-wrong-byte",
                    format!("virtual_position() = ({}, {}) sampled at model offset {cur} denotes {d:?}", vp >> 16, vp & 0xffff),
                ));
            }
        }
        // (3) same history, other ending => identical bytes
        let other = match plan.end {
            End::Finish => End::Drop,
            End::Drop => End::Finish,
            End::TryFinishIntoInner => End::Drop,
            End::TryFinishDrop => End::Finish,
        };
        // (a history that calls try_finish itself legitimately ends differently: finish() always
        // appends an EOF block, a drop right after try_finish does not)
        let has_try_finish = plan.ops.contains(&Op::TryFinish);
        match catch(|| run_history(plan.level, &data, &plan.ops, if has_try_finish { plan.end } else { other }, WritePlan::plain())) {
            Ok(Ok(r2)) => {
                if r2.sink != r.sink {
                    return Some(viol(
                        "ending-dependence",
                        "finish-vs-drop",
                        format!("{:?} gives {} bytes, {:?} gives {} bytes", plan.end, r.sink.len(), other, r2.sink.len()),
                    ));
                }
            }
            Ok(Err((class, msg))) => return Some(viol(&class, "invariant", msg)),
            Err(p) => return Some(viol("panic", &p.witness(), format!("writer panicked at {}: {}", p.location, p.message))),
        }

        // probes / measures
        let s = &mut *ctx.stats;
        let data_members = flat.members.iter().filter(|m| m.ulen > 0).count();
        let level = plan.level.unwrap_or(6);
        let mut stored_fallback = false;
        for m in &flat.members {
            if m.ulen > 0 && level > 0 {
                let first = r.sink[m.cpos as usize + 18];
                if first & 0x06 == 0 {
                    stored_fallback = true;
                }
            }
        }
        s.probe_if("level0_fallback_taken", stored_fallback);
        s.probe_if("block_at_staging_limit", flat.members.iter().any(|m| m.ulen >= 65280));
        s.probe_if(
            "single_write_spanning_3_blocks",
            plan.ops.iter().any(|o| matches!(o, Op::WriteAll { len } if *len > 2 * 65536)),
        );
        s.probe_if("empty_history", plan.ops.is_empty());
        s.probe_if("drop_with_staged_data", plan.end == End::Drop && r.staged_at_end);
        s.probe_if("short_writing_sink", r.sink_short_writes > 0);
        s.probe("tells_checked", r.tells.len() as u64);
        s.kind(&format!("level={}", plan.level.map(|l| l.to_string()).unwrap_or("default".into())));
        if data_members >= 2 || plan.ops.len() >= 2 {
            s.nontrivial(plan_hash(plan));
        }
        if s.want_sample() && data_members >= 2 {
            s.sample(|| json!({"plan": plan, "members": flat.members.len(), "uncompressed_len": model.len(), "file_len": r.sink.len()}));
        }
        None
    }
}

pub fn plan_hash<T: Serialize>(p: &T) -> u64 {
    prng::hash_bytes(&serde_json::to_vec(p).unwrap())
}

impl Check for C01 {
    fn id(&self) -> &'static str {
        "C01"
    }
    fn level(&self) -> &'static str {
        "exploration"
    }
    fn n_cases(&self, tier: Tier) -> u64 {
        match tier {
            Tier::Quick => 20_000,
            Tier::Thorough => 300_000,
        }
    }
    fn plan(&self, master: u64, idx: u64, _tier: Tier) -> Value {
        let mut rng = Rng::new(prng::derive(master, "C01", idx));
        let ops = gen_history(&mut rng, 40, 400_000);
        let len = total_len(&ops);
        let class = *rng.pick(&CLASSES);
        let level = match rng.below(12) {
            0 => None,
            n => Some(((n - 1) % 10) as u8),
        };
        let end = *rng.pick(&[End::Finish, End::Drop, End::Drop, End::TryFinishIntoInner, End::TryFinishDrop]);
        let plan = Plan {
            kind: "bgzf-writer".into(),
            level,
            payload: Payload {
                class,
                len,
                seed: rng.next_u64(),
            },
            ops,
            end,
            sink_short: gen_short(&mut rng),
        };
        serde_json::to_value(plan).unwrap()
    }
    fn execute(&self, plan: &Value, ctx: &mut RunCtx) -> Vec<Finding> {
        let p: Plan = match serde_json::from_value(plan.clone()) {
            Ok(p) => p,
            Err(e) => panic!("bad C01 plan: {e}"),
        };
        match self.run(&p, ctx) {
            Some(v) => vec![Finding {
                violation: v,
                plan: plan.clone(),
            }],
            None => Vec::new(),
        }
    }
    fn shrink(&self, plan: &Value) -> Vec<Value> {
        let Ok(p) = serde_json::from_value::<Plan>(plan.clone()) else {
            return Vec::new();
        };
        let mut out = Vec::new();
        let mut push = |mut q: Plan| {
            q.payload.len = total_len(&q.ops);
            out.push(serde_json::to_value(q).unwrap());
        };
        // drop halves, then single ops
        if p.ops.len() > 1 {
            let h = p.ops.len() / 2;
            let mut q = p.clone();
            q.ops = p.ops[..h].to_vec();
            push(q);
            let mut q = p.clone();
            q.ops = p.ops[h..].to_vec();
            push(q);
        }
        for i in 0..p.ops.len() {
            let mut q = p.clone();
            q.ops.remove(i);
            push(q);
        }
        if p.sink_short != Short::Full {
            let mut q = p.clone();
            q.sink_short = Short::Full;
            push(q);
        }
        if p.payload.class != bytes::Class::Ramp {
            let mut q = p.clone();
            q.payload.class = bytes::Class::Ramp;
            push(q);
        }
        for i in 0..p.ops.len() {
            if let Op::Write { len } | Op::WriteAll { len } = &p.ops[i] {
                for new in [len / 2, len.saturating_sub(1)] {
                    if new < *len {
                        let mut q = p.clone();
                        q.ops[i] = Op::WriteAll { len: new };
                        push(q);
                    }
                }
            }
        }
        if p.end != End::Finish {
            let mut q = p.clone();
            q.end = End::Finish;
            push(q);
        }
        out
    }
    fn rule(&self) -> String {
        "one evaluation = one generated writer history (ops from {write(len), write_all(len), flush, virtual_position}, ending in finish / drop / try_finish+into_inner; payload class, compression level None|0..=9 and the sink's short-write mode are swarm-varied) executed against bgzf::io::Writer over the simulated sink and judged by (1) bgzf::io::Reader read-back == model, (2) the independent walker (own gzip/BC parser, own CRC-32, miniz_oxide inflate) incl. EOF marker, (3) same history with the other ending gives identical bytes, (4) every sampled writer virtual position denotes the model cursor. distinct_nontrivial = number of distinct plan hashes among runs with >= 2 non-empty blocks or >= 2 operations".into()
    }
    fn assumptions(&self) -> Vec<String> {
        vec![
            "miniz_oxide's inflate and the harness' CRC-32 are correct (independent of zlib-rs/flate2 used by noodles)".into(),
            "the sink is fault-free here apart from short writes (sink faults are C14)".into(),
            "libdeflate feature off, as in the pinned test suite".into(),
        ]
    }
    fn components(&self) -> Value {
        json!({"real": ["noodles-bgzf io::Writer, io::Reader, deflate, zlib-rs via flate2"], "stub": ["byte sink (SimWrite)"], "independent_oracle": ["BGZF walker: own parser + CRC-32 + miniz_oxide inflate"]})
    }
    fn expected_probes(&self) -> Vec<&'static str> {
        vec![
            "level0_fallback_taken",
            "block_at_staging_limit",
            "single_write_spanning_3_blocks",
            "empty_history",
            "drop_with_staged_data",
            "short_writing_sink",
        ]
    }
}
