//! Worker process: runs a slice of the case indices of one check and reports over stdout.
//!
//! Line protocol (one line each, written with a single unbuffered `write(2)`):
//!   `S <idx>`          case idx is about to start
//!   `s <plan-json>`    (announce mode) narrowed plan of the sub-case about to run
//!   `V <json>`         a finding {idx, violation, plan}
//!   `D <json>`         final statistics of this worker

use std::{
    cell::RefCell,
    io::Write,
    panic::{self, AssertUnwindSafe},
    sync::Once,
};

use serde_json::json;

use super::{Check, PanicInfo, RunCtx, Stats, Tier};

thread_local! {
    static LAST_PANIC: RefCell<Option<PanicInfo>> = const { RefCell::new(None) };
    static QUIET: RefCell<bool> = const { RefCell::new(false) };
}

static HOOK: Once = Once::new();

pub fn install_panic_hook() {
    HOOK.call_once(|| {
        let default = panic::take_hook();
        panic::set_hook(Box::new(move |info| {
            let location = info
                .location()
                .map(|l| format!("{}:{}:{}", l.file(), l.line(), l.column()))
                .unwrap_or_else(|| "<unknown>".into());
            let message = if let Some(s) = info.payload().downcast_ref::<&str>() {
                (*s).to_string()
            } else if let Some(s) = info.payload().downcast_ref::<String>() {
                s.clone()
            } else {
                "<non-string panic payload>".into()
            };
            // a refused allocation (C15 policy): attribute it to the requesting site in /repo
            let location = if message.starts_with(super::alloc::REFUSED_MARKER) {
                super::alloc::suspended(alloc_site)
            } else {
                location
            };
            LAST_PANIC.with(|p| *p.borrow_mut() = Some(PanicInfo { location, message }));
            let quiet = QUIET.with(|q| *q.borrow());
            if !quiet {
                default(info);
            }
        }));
    });
}

/// Runs `f`; a panic becomes `Err(PanicInfo)`. Panics on *other* threads are not seen here.
pub fn catch<R>(f: impl FnOnce() -> R) -> Result<R, PanicInfo> {
    install_panic_hook();
    let prev = QUIET.with(|q| q.replace(true));
    LAST_PANIC.with(|p| *p.borrow_mut() = None);
    let r = panic::catch_unwind(AssertUnwindSafe(f));
    QUIET.with(|q| *q.borrow_mut() = prev);
    match r {
        Ok(v) => Ok(v),
        Err(payload) => {
            let info = LAST_PANIC.with(|p| p.borrow_mut().take());
            Err(info.unwrap_or_else(|| {
                let message = if let Some(s) = payload.downcast_ref::<&str>() {
                    (*s).to_string()
                } else if let Some(s) = payload.downcast_ref::<String>() {
                    s.clone()
                } else {
                    "<non-string panic payload>".into()
                };
                PanicInfo {
                    location: "<unknown>".into(),
                    message,
                }
            }))
        }
    }
}

/// Makes panics on the current thread silent (used by simulated threads).
pub fn set_quiet(q: bool) {
    QUIET.with(|c| *c.borrow_mut() = q);
}

pub fn take_last_panic() -> Option<PanicInfo> {
    LAST_PANIC.with(|p| p.borrow_mut().take())
}

pub fn raw_line(s: &str) {
    let mut buf = Vec::with_capacity(s.len() + 1);
    buf.extend_from_slice(s.as_bytes());
    buf.push(b'\n');
    let mut out = std::io::stdout().lock();
    let _ = out.write_all(&buf);
    let _ = out.flush();
}

pub struct Slice {
    pub index: u64,
    pub count: u64,
    pub from: u64,
    /// for case `from` only: skip this many leading sub-cases
    pub skip_subs: u64,
}

/// Runs all case indices `i` with `i % count == index` and `i >= from`.
pub fn run_worker(check: &dyn Check, tier: Tier, master: u64, slice: Slice, limit: Option<u64>) {
    install_panic_hook();
    if check.arm_allocator() {
        super::alloc::arm(true);
    }
    let n = limit.unwrap_or_else(|| check.n_cases(tier)).min(check.n_cases(tier));
    let mut stats = Stats::default();
    let timing = std::env::var_os("NSIM_TIMING");
    let mut idx = slice.index;
    while idx < n {
        if idx >= slice.from {
            raw_line(&format!("S {idx}"));
            let t0 = std::time::Instant::now();
            let plan = check.plan(master, idx, tier);
            let findings = {
                let mut ctx = RunCtx::new(&mut stats);
                ctx.announce = check.announce();
                if idx == slice.from {
                    ctx.skip_subs = slice.skip_subs;
                }
                match catch(|| check.execute(&plan, &mut ctx)) {
                    Ok(f) => f,
                    Err(p) => {
                        // a panic that escaped the check's own containment is a harness error
                        raw_line(&format!(
                            "H {}",
                            json!({"idx": idx, "error": format!("harness panic at {}: {}", p.location, p.message), "plan": plan})
                        ));
                        Vec::new()
                    }
                }
            };
            if let Some(path) = &timing {
                // development aid only (never read back): per-case wall time appended to a file
                use std::io::Write as _;
                if let Ok(mut f) = std::fs::OpenOptions::new().create(true).append(true).open(path) {
                    let _ = writeln!(f, "T {idx} {}", t0.elapsed().as_millis());
                }
            }
            for f in findings {
                raw_line(&format!(
                    "V {}",
                    json!({"idx": idx, "violation": f.violation, "plan": f.plan})
                ));
            }
        }
        idx += slice.count;
    }
    raw_line(&format!("D {}", serde_json::to_string(&stats).unwrap()));
}

/// The first frame under /repo/ of the current stack, found by symbolising a captured backtrace.
/// Symbolisation costs ~0.1 s, so results are cached by a hash of the raw return addresses.
fn alloc_site() -> String {
    use std::collections::HashMap;
    use std::sync::Mutex;
    static CACHE: Mutex<Option<HashMap<u64, String>>> = Mutex::new(None);
    let mut addrs = [std::ptr::null_mut::<libc::c_void>(); 40];
    // SAFETY: glibc backtrace(3) fills at most `addrs.len()` return addresses
    let n = unsafe { libc::backtrace(addrs.as_mut_ptr(), addrs.len() as i32) } as usize;
    let mut h = super::prng::Fnv::new();
    // skip the hook/handler frames at the top; keep the requesting call path
    for a in addrs[..n].iter().skip(6).take(14) {
        h.u64(*a as usize as u64);
    }
    let key = h.get();
    if let Some(s) = CACHE.lock().unwrap().get_or_insert_with(HashMap::new).get(&key) {
        return s.clone();
    }
    let bt = std::backtrace::Backtrace::force_capture().to_string();
    let site = bt
        .lines()
        .filter_map(|l| l.trim().strip_prefix("at "))
        .find(|l| l.contains("/noodles-") && !l.contains("/nsim/") && !l.starts_with("/rustc/") && !l.contains("/.cargo/"))
        .map(|l| l.to_string())
        .unwrap_or_else(|| "<no /repo frame>".to_string());
    CACHE
        .lock()
        .unwrap()
        .get_or_insert_with(HashMap::new)
        .insert(key, site.clone());
    site
}
