#!/usr/bin/env python3
"""Regenerates /verif/MANIFEST.json from the table below (kept in one place so that the manifest
stays consistent with what nsim implements). Run after changing the set of claimed checks."""
import json, os, subprocess

HERE = os.path.dirname(os.path.dirname(os.path.abspath(__file__)))

BASELINE_OFF = ("cd /repo && cargo nextest run --workspace --no-fail-fast "
                "--tool-config-file pb:/w/lib/nextest.toml --profile pb --test-threads 8 --offline")

CLAIMED = {
    "C01": dict(
        category="exploration", design="DESIGN.md §8 C01",
        technique="deterministic simulation: seeded search over writer call histories against a flat model + independent BGZF walker",
        text="Seeded search over write/flush/tell histories (lengths around the 65280/65495/65536 limits, 0-400 KiB, "
             "levels default and 0..=9, finish vs drop vs try_finish) on the real bgzf::io::Writer over a simulated sink; "
             "each run is judged by noodles' own reader and by an independent gzip/BC parser with its own CRC-32 and "
             "miniz_oxide inflate. Sampling, not proof: a clean batch is evidence that no history in the explored "
             "distribution breaks the identity or the container rules.",
        note="Trusted: miniz_oxide inflate, harness CRC-32/parser, the simulated sink. Sink faults are judged in C14, reader histories in C02.",
        engine="seq-sim"),
}

CLAIMED["C02"] = dict(
    category="exploration", design="DESIGN.md §8 C02",
    technique="deterministic simulation: seeded search over reader operation histories (read/read_exact/fill_buf/consume/seek/seek-by-gzi) checked step by step against a flat-array reference model",
    text="Seeded search over histories of up to 60 operations on one long-lived bgzf::io::Reader / IndexedReader over generated "
         "block layouts (harness-built members incl. empty blocks, 64 KiB blocks, 0-2 EOF markers; or writer output with sampled "
         "writer positions). After every operation the returned bytes, the denotation of virtual_position() and monotonicity "
         "are compared with a flat-array model; seek targets cover every legal spelling of every byte boundary, positions "
         "reported earlier in the run, and gzi offsets. Sampling over histories, not proof.",
    note="Trusted: harness block builder/walker (miniz_oxide, own CRC-32) as the definition of the flat content; source delivery is a knob, judged in C12.",
    engine="seq-sim")

CLAIMED["C13"] = dict(
    category="fault_enumeration", design="DESIGN.md §8 C13",
    technique="deterministic simulation with crash-point enumeration: every cut offset of generated files on a simulated disk, prefix oracle against the written model",
    text="Crash-point enumeration: files written by the real noodles writers from harness-generated models are cut at every byte "
         "offset (all files <= 6000 bytes) or at every offset within 40 bytes of each structural boundary plus a seeded sample "
         "(larger files, many BGZF members); a fresh reader then reads each prefix through every reading-protocol variant — the sync reader, its "
         "async twin where one exists, the noodles-util facade; a quarter of the cases through short reads. The "
         "oracle is the statement itself: delivered items are an unchanged prefix of what was written, no panic, raw BAM/BCF "
         "record streams / CRAM containers cut mid-unit end in Err. Complete for the one-fault space of each generated file; the "
         "files themselves are sampled.",
    note="Trusted: harness model text as the definition of what was written; rendering via noodles text writers. Known finding listed in known_findings.json (cut at a BGZF member boundary inside a text line).",
    engine="seq-sim")

CLAIMED["C12"] = dict(
    category="exploration", design="DESIGN.md §8 C12",
    technique="deterministic simulation: seeded search over delivery schedules (short reads, Interrupted, buffer capacities) with complete single-split/EINTR enumeration on small files; differential oracle plain vs adversarial delivery",
    text="Every reader kind reads the same generated valid file through plain memory and through the delivery adversary (1-byte, "
         "random, sparse, boundary-aligned and boundary-straddling short reads; Interrupted at chosen calls; std BufReader / "
         "short-window BufRead of capacity 1..65536). The observation sequences (headers, records, bytes, virtual positions, error "
         "kind and index) must be equal. For files <= 1500 bytes the one-fault space is enumerated completely (every split point, "
         "1-byte delivery, EINTR before each read call); larger files (to ~300 KiB) are sampled. Sampling, not proof.",
    note="Trusted: std::io::BufReader; harness retries Interrupted on byte-level calls as std consumers do. Known findings (Interrupted propagated by fill_buf scanners) are listed per reader kind in known_findings.json.",
    engine="seq-sim")

CLAIMED["C14"] = dict(
    category="fault_enumeration", design="DESIGN.md §8 C14",
    technique="deterministic simulation with fault enumeration: every failing sink call index x error kind, disk-full budgets, Ok(0), short-write/Interrupted patterns against a scripted sink; /dev/full for path APIs",
    text="For every writer kind the careful-user protocol is run against a scripted sink. Per generated model the fault-free run "
         "counts the sink calls N, then every call index fails once (all N <= 400; boundary-biased + seeded subset above), with "
         "rotating error kinds, sticky and transient, plus Ok(0), ~35 byte budgets (disk full mid-write) and short-write / "
         "Interrupted patterns without hard fault. Oracle: a consumed fault must surface as Err from the protocol; without fault "
         "the bytes equal the plain run, which decodes to exactly the model; index fs::write on /dev/full and on a real file under a file-size quota (RLIMIT_FSIZE) running out at "
         "the start, the middle and the last 29 bytes must fail; SAM/BAM kinds are also written through the "
         "noodles-util facade writer. Complete for "
         "the one-fault space of each generated model; models are sampled. The multithreaded BGZF writer is driven under "
         "thread-sim (C03 engine).",
    note="Trusted: the harness protocol per kind (DESIGN.md §12) is what a careful user does; no calls after the first Err. /dev/full is the real kernel device.",
    engine="seq-sim + thread-sim")

CLAIMED["C03"] = dict(
    category="exploration", design="DESIGN.md §8 C03",
    technique="deterministic simulation of real OS threads under a baton scheduler (seeded random / PCT / forced completion-permutation schedules) with sink, source and corrupt-block fault injection; differential oracle vs the single-threaded writer and the flat model",
    text="The real MultithreadedWriter/MultithreadedReader code runs on real OS threads, serialised by a baton: every channel "
         "operation, thread start, join, pool pick-up and sink/source call is a scheduling point decided by a seeded strategy "
         "(crossbeam-channel and rayon are substituted at the Cargo level by shims with the same semantics). Writer output must "
         "be byte-identical to bgzf::io::Writer for the same history; reader bytes/positions must equal the flat model after "
         "every operation incl. seeks; deadlock and livelock are detected exactly; injected sink failures, source errors and "
         "corrupt blocks must surface from a later call, after which the reader stays in use (recovery seeks); a third "
         "of the runs add short/interrupted I/O on the sink or source. Seeded search over schedules (20 000 quick / 400 000 thorough), not proof.",
    note="Trusted: shim fidelity (bounded channels, disconnect semantics, pool as 'any idle worker picks any queued task'); hooks H1 add only scheduling points. Each run is replayable from its recorded decision list.",
    engine="thread-sim")

CLAIMED["C15"] = dict(
    category="fault_enumeration", design="DESIGN.md §8 C15",
    technique="deterministic simulation with stored-data fault enumeration: every single-byte substitution x value set and every 4-byte field overwrite x special values at raw / re-sealed-payload layers; process-contained panic, abort, hang and allocation oracles",
    text="A valid generated file of every kind sits on the simulated disk; one stored-data fault is applied per run: byte "
         "substitution at every offset (small files; boundary-biased + seeded sample above) x 6 values, 4-byte LE overwrite at "
         "the same offsets x {0,1,0x7fffffff,0x80000000,0xffffffff}, truncations; for text content also 15 structural "
         "characters, deletion, insertion of tab/LF/CR, a multibyte character and 7 extreme numbers per digit run; layers: raw bytes, BGZF payload re-wrapped "
         "with valid CRC/ISIZE, CRAM with block/container CRCs re-sealed and every block's method byte set to every codec. The "
         "reader reads to EOF/error, every Ok record is rendered (all accessors), corrupted indexes that load are used for "
         "queries on the intact data. Oracle: Ok/Err only; panics caught, aborts/stack overflows/hangs attributed through "
         "worker-process containment; a fixed memory policy (single request > 1 GiB or live heap > 2 GiB refused) makes "
         "allocation failures machine-independent. Complete for the one-fault space of each small generated file.",
    note="Trusted: the memory policy as the definition of 'allocation fails'; accessor coverage = what the text renderers/owned conversions touch. Many genuine defects are listed in known_findings.json (per source file of the panic site).",
    engine="seq-sim")

CLAIMED["C16"] = dict(
    category="exploration", design="DESIGN.md §8 C16",
    technique="deterministic simulation of the async twins on a driverless single-threaded tokio runtime with a scripted poll adversary (Pending, partial transfers, blocking-job completion delays); differential oracle vs the sync twin and the flat model",
    text="Every async reader, writer and query twin runs inside async-sim: the underlying AsyncRead/AsyncWrite/AsyncSeek objects "
         "return Pending or transfer partially as the plan says (sinks lenient, strict = BrokenPipe after shutdown, or "
         "buffered = bytes reach the destination only on flush/shutdown), the former spawn_blocking inflate/deflate jobs are gated tasks "
         "whose completion order the plan decides, worker counts 1..8. Oracles: async BGZF writer output passes the independent "
         "walker and decodes like the sync writer's; async BGZF reader histories (incl. seeks) equal the flat model; async "
         "readers of 19 kinds yield the sync observation (headers, records, positions, errors); async writers decode like the "
         "sync writers' output and are byte-identical for uncompressed formats; async queries equal sync queries; poll budget "
         "and watchdog for liveness. Seeded search over poll schedules, not proof.",
    note="Trusted: hook H2 only moves the blocking jobs onto the same runtime behind a gate; adversary fairness (flush Pending only while dirty, shutdown Pending once). Cancellation safety is not in the statement.",
    engine="async-sim")

NOT_YET = {p: "claimed in DESIGN.md; check under construction in this round (will move to checks when registered)" for p in []}

NOT_APPLICABLE = {
    "C04": "pure function of (records, block layout, index geometry, region): no schedule, fault, crash point or history in the statement; input generation with a scan oracle is not deterministic simulation. Reader-state carry-over between seeks is decided in C02, delivery independence of queries in C12, corrupt indexes in C15.",
    "C05": "pure encode/decode inverse over the BAM record space; no I/O schedule, fault or history.",
    "C06": "pure text/binary round trip and a relation between two pure encoders.",
    "C07": "pure function of (records, reference, writer options); 'configurations' are inputs, not schedules or faults.",
    "C08": "pure functions on byte slices and integers (codecs, integer codings); no stream, thread or fault to simulate.",
    "C09": "pure text round trip with header-directed typing.",
    "C10": "pure case analysis over integer ranges and vector shapes.",
    "C11": "pure offset arithmetic over (file geometry, region); the delivery-dependent aspect (small buffers splitting line terminators) is decided under C12.",
    "C17": "pure interval arithmetic and a pure serialise/parse inverse; exhaustible only by enumeration, which is model checking, not simulation.",
    "C18": "pure string round trip through an escaping layer.",
    "C19": "pure function of (records, slice layout, region); same reasoning as C04.",
    "C20": "detection is a pure function of the leading bytes and conversion a composition of pure codecs; the delivery-dependent aspect (short first read) is decided under C12.",
}


def main():
    hooks_commits = []
    p = os.path.join(HERE, "hooks_commits.txt")
    if os.path.exists(p):
        hooks_commits = [l.split()[0] for l in open(p) if l.strip() and not l.startswith("#")]
    checks = []
    for pid in sorted(CLAIMED):
        c = CLAIMED[pid]
        checks.append({
            "property_id": pid,
            "quick_cmd": f"bin/check {pid} quick",
            "thorough_cmd": f"bin/check {pid} thorough",
            "evidence_file": f"/verif/evidence/{pid}.json",
            "replay_cmd_template": "bin/check --replay {path}",
            "engine": c["engine"],
            "level_claimed": {"category": c["category"], "text": c["text"], "design_ref": c["design"]},
            "level_note": c["note"],
            "technique": c["technique"],
        })
    na = [{"property_id": k, "reason": v} for k, v in sorted({**NOT_APPLICABLE, **NOT_YET}.items())]
    manifest = {
        "version": 1,
        "setup_cmd": "bin/check --build",
        "hooks": {
            "guard": "--cfg noodles_verif",
            "enable": "RUSTFLAGS='--cfg noodles_verif' via /verif/sim/.cargo/config.toml; crossbeam-channel and rayon are substituted by /verif/sim/shims through [patch.crates-io] for the simulator build only",
            "baseline_off_cmd": BASELINE_OFF,
            "source_commits": hooks_commits,
            "add_only": True,
        },
        "engines": [
            {"name": "seq-sim", "path": "/verif/sim/nsim", "serves_properties": [p for p in sorted(CLAIMED) if CLAIMED[p]["engine"].startswith("seq-sim")],
             "kind_free_text": "single caller thread against simulated storage (SimRead/SimBufRead/SimWrite): delivery schedules, EINTR, cut points, failing sink calls, stored-byte corruption; histories checked against flat reference models"},
            {"name": "thread-sim", "path": "/verif/sim/shims/crossbeam-channel/src/sim.rs", "serves_properties": [p for p in sorted(CLAIMED) if "thread-sim" in CLAIMED[p]["engine"]],
             "kind_free_text": "real OS threads serialised by a baton; every channel op, spawn, join, pool pick-up and sink/source call is a scheduling point decided by a seeded strategy (random / PCT / forced completion permutation)"},
            {"name": "async-sim", "path": "/verif/sim/nsim/src/aexec", "serves_properties": [p for p in sorted(CLAIMED) if "async-sim" in CLAIMED[p]["engine"]],
             "kind_free_text": "tokio current_thread runtime without drivers; Pending/partial-transfer adversary on AsyncRead/AsyncWrite/AsyncSeek; spawn_blocking jobs replaced by gated tasks whose completion order the plan decides"},
        ],
        "checks": checks,
        "not_applicable": na,
        "notes": "All checks are `nsim check <ID>` (one binary, /verif/sim). Default VERIF_SEED=1. Exit 2 = harness/build error (no verdict). Known findings: /verif/known_findings.json. See DESIGN.md.",
    }
    with open(os.path.join(HERE, "MANIFEST.json"), "w") as f:
        json.dump(manifest, f, indent=1)
        f.write("\n")
    try:
        import jsonschema
        jsonschema.validate(manifest, json.load(open("/root/.vp/MANIFEST.schema.json")))
        print("MANIFEST.json valid;", len(checks), "checks,", len(na), "not applicable")
    except ImportError:
        print("MANIFEST.json written (jsonschema not available for validation)")


if __name__ == "__main__":
    main()
