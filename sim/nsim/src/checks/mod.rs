//! One module per claimed property.

pub mod c01;
pub mod c02;
pub mod c03;
pub mod c12;
pub mod c13;
pub mod c14;
pub mod c15;
pub mod c16;

use crate::kernel::{Check, RunCtx, Stats, Tier, prng};

pub static ALL: &[&'static dyn Check] = &[&c01::C01, &c02::C02, &c03::C03, &c12::C12, &c13::C13, &c14::C14, &c15::C15, &c16::C16];

/// Determinism self-test: every case is planned and executed twice in this process; plans,
/// findings and the statistics (which include every fault that fired and every probe) must be
/// byte-identical. The caller runs this in several processes at different worker counts and diffs
/// the printed digests.
pub fn selftest_determinism(check: &dyn Check, seed: u64, cases: u64) -> i32 {
    if check.arm_allocator() {
        crate::kernel::alloc::arm(true);
    }
    crate::kernel::worker::install_panic_hook();
    let mut digest = prng::Fnv::new();
    let mut diverged = 0u64;
    let n = cases.min(check.n_cases(Tier::Quick));
    for idx in 0..n {
        let mut one = |_: u32| {
            let plan = check.plan(seed, idx, Tier::Quick);
            let mut stats = Stats::default();
            let findings = {
                let mut ctx = RunCtx::new(&mut stats);
                check.execute(&plan, &mut ctx)
            };
            let f: Vec<_> = findings
                .iter()
                .map(|f| (f.violation.signature(check.id()), f.violation.message.clone(), f.plan.to_string()))
                .collect();
            format!("{}|{}|{:?}", plan, serde_json::to_string(&stats).unwrap(), f)
        };
        let a = one(0);
        let b = one(1);
        if a != b {
            diverged += 1;
            eprintln!("DIVERGENCE in case {idx}");
        }
        digest.str(&a);
    }
    println!(
        "selftest determinism {}: cases={} diverged={} digest={:016x}",
        check.id(),
        n,
        diverged,
        digest.get()
    );
    if diverged == 0 { 0 } else { 1 }
}

/// Domain validation: every generated file of every kind, read back fault-free through every
/// reading-protocol variant, must reproduce the model exactly. Run at development time (and by
/// `selftest domain`) so that generators never out-run the domain on which the unchanged tree
/// round-trips.
pub fn selftest_domain(seed: u64, cases: u64, only: Option<&str>) -> i32 {
    use crate::fmt::{End, Source, kinds};
    let mut bad = 0u64;
    let mut n = 0u64;
    for idx in 0..cases {
        for &kind in kinds::ALL_KINDS {
            if let Some(o) = only {
                if kind.name() != o {
                    continue;
                }
            }
            let mut rng = crate::kernel::Rng::new(prng::derive(seed, "domain", idx));
            let spec = kinds::FileSpec {
                kind,
                size_class: (idx % 4) as u8,
                seed: rng.next_u64(),
            };
            let made = match crate::kernel::catch(|| kinds::make(&spec)) {
                Ok(Ok(m)) => m,
                Ok(Err(e)) => {
                    bad += 1;
                    if bad <= 20 {
                        println!("MAKE-ERROR {spec:?}: {e}");
                    }
                    continue;
                }
                Err(p) => {
                    bad += 1;
                    if bad <= 20 {
                        println!("MAKE-PANIC {spec:?}: {} {}", p.location, p.message);
                    }
                    continue;
                }
            };
            for variant in 0..kind.variants() {
                n += 1;
                let obs = kinds::read(kind, variant, Source::plain(made.bytes.clone()));
                let got = kinds::content_items(&obs.items);
                let ok_bytes = match &made.flat {
                    Some(f) if kind == kinds::Kind::Bgzf => obs.bytes == f.data,
                    _ => true,
                };
                let model_ok = !kinds::has_model(kind, variant) || got == made.expected;
                if obs.end != End::Eof || !model_ok || !ok_bytes {
                    bad += 1;
                    if bad <= 20 {
                        let d = crate::fmt::first_diff(&got, &made.expected);
                        println!("MISMATCH {spec:?} variant {variant}: end={:?} first_diff={d:?}", obs.end);
                        if let Some(i) = d {
                            if let (Some(a), Some(b)) = (got.get(i), made.expected.get(i)) {
                                let k = a.bytes().zip(b.bytes()).position(|(x, y)| x != y).unwrap_or(a.len().min(b.len()));
                                let lo = k.saturating_sub(200);
                                println!("   diff at char {k}: got ...{} / want ...{}", &a[lo..(k + 80).min(a.len())], &b[lo..(k + 80).min(b.len())]);
                            }
                            println!("   got: {:?}", got.get(i).map(|s| crate::fmt::clip(s)));
                            println!("  want: {:?}", made.expected.get(i).map(|s| crate::fmt::clip(s)));
                        }
                    }
                }
            }
        }
    }
    println!("selftest domain: reads={n} bad={bad}");
    if bad == 0 { 0 } else { 1 }
}

/// Async twin validation (`nsim selftest async --cases N [--seed S] [--kind K] [--max-print M]`):
/// for `cases` seeds x every kind x size class 0..=3, the file is built with `kinds::make`; then
/// under the plain async plan and under three adversarial plans (`c16::gen_aio`) every async
/// reader variant, the async writer and the async query twin of fmt::aio run inside async-sim
/// (`aexec::run`) and are compared with their sync counterparts:
/// (a) `aread` vs `kinds::read(kind, variant, Source::plain(..))`: items, bytes, end class;
/// (b) `awrite` vs `kinds::write_to`: decode(async bytes) == decode(sync bytes) (`kinds::read`
///     variant 0 + `content_items`), async output reads to Eof, and raw byte equality for formats
///     that are neither BGZF containers nor otherwise compressed;
/// (c) `aquery` vs `fmt::query::query`: items and end class.
/// Every mismatch is printed (at most `--max-print` per class, default 10; all are counted) with
/// kind / variant / file spec / plan / workers and the first differing item. A case that does not
/// finish within 120 s is reported as HANG (missed wake-up: the driverless runtime parks for good)
/// and ends the process with status 3.
pub fn selftest_async(seed: u64, cases: u64, only: Option<&str>, max_print: u64) -> i32 {
    use std::collections::BTreeMap;
    use std::sync::{Arc, Mutex};
    use std::time::{Duration, Instant};

    use crate::aexec;
    use crate::fmt::{End, Obs, Source, aio as faio, clip, first_diff, kinds, observe, query};
    use crate::kernel::Rng;
    use crate::seams::aio::{AioCounters, AioPlan, SharedAio, SimAsyncRead, SimAsyncWrite};

    fn end_class(e: &End) -> String {
        match e {
            End::Eof => "eof".into(),
            End::Err { kind, .. } => format!("err:{kind}"),
            End::Panic { witness, .. } => format!("panic:{witness}"),
        }
    }
    fn obs_diff(o0: &Obs, o1: &Obs) -> String {
        if std::env::var_os("NSIM_ASYNC_DUMP").is_some() {
            println!("DUMP sync  items: {:#?}\nDUMP async items: {:#?}", o0.items.iter().map(|s| clip(s)).collect::<Vec<_>>(), o1.items.iter().map(|s| clip(s)).collect::<Vec<_>>());
        }
        match first_diff(&o0.items, &o1.items) {
            Some(i) => format!(
                "item {i}: sync {} / async {}; {} vs {} items; ends: sync {:?} / async {:?}",
                o0.items.get(i).map(|s| clip(s)).unwrap_or_else(|| "<none>".into()),
                o1.items.get(i).map(|s| clip(s)).unwrap_or_else(|| "<none>".into()),
                o0.items.len(),
                o1.items.len(),
                o0.end,
                o1.end
            ),
            None if o0.bytes != o1.bytes => {
                let at = o0.bytes.iter().zip(&o1.bytes).position(|(a, b)| a != b).unwrap_or(o0.bytes.len().min(o1.bytes.len()));
                format!("same {} items; bytes differ at {at} (sync {} / async {} bytes); ends: sync {:?} / async {:?}", o0.items.len(), o0.bytes.len(), o1.bytes.len(), o0.end, o1.end)
            }
            None => format!("same {} items and {} bytes; ends: sync {:?} / async {:?}", o0.items.len(), o0.bytes.len(), o0.end, o1.end),
        }
    }

    // watchdog: the case being run and when it started
    let current: Arc<Mutex<Option<(String, Instant)>>> = Arc::new(Mutex::new(None));
    {
        let current = current.clone();
        std::thread::spawn(move || {
            loop {
                std::thread::sleep(Duration::from_secs(2));
                let c = current.lock().unwrap().clone();
                if let Some((what, since)) = c {
                    if since.elapsed() > Duration::from_secs(120) {
                        println!("HANG (no completion within 120 s; missed wake-up or unbounded loop): {what}");
                        std::process::exit(3);
                    }
                }
            }
        });
    }
    let begin = |what: String| *current.lock().unwrap() = Some((what, Instant::now()));
    let done = || *current.lock().unwrap() = None;

    // mismatch classes: "<op> <kind> <variant>: <class>" -> (count, first example)
    let mut classes: BTreeMap<String, (u64, String)> = BTreeMap::new();
    let mut bad = 0u64;
    let mut report = |bad: &mut u64, class: String, detail: String| {
        *bad += 1;
        let e = classes.entry(class.clone()).or_insert_with(|| (0, detail.clone()));
        e.0 += 1;
        if e.0 <= max_print {
            println!("MISMATCH {class} :: {detail}");
        }
    };

    if only.is_none() {
        async_probes();
    }
    let t0 = Instant::now();
    let (mut files, mut n_read, mut n_write, mut n_query) = (0u64, 0u64, 0u64, 0u64);
    let (mut skipped_read, mut skipped_write, mut skipped_write_model, mut skipped_query) = (0u64, 0u64, 0u64, 0u64);
    let mut byte_identical_compressed = (0u64, 0u64);
    let mut polls = 0u64;
    let mut pendings = 0u64;
    let mut per_kind: BTreeMap<&'static str, [u64; 3]> = BTreeMap::new();
    let mut sync_time = Duration::ZERO;
    let mut make_time = Duration::ZERO;

    for idx in 0..cases {
        for &kind in kinds::ALL_KINDS {
            if only.is_some_and(|o| o != kind.name()) {
                continue;
            }
            for size_class in 0..=3u8 {
                let mut rng = Rng::new(prng::derive(seed, &format!("async-selftest-{}-{size_class}", kind.name()), idx));
                let spec = kinds::FileSpec { kind, size_class, seed: rng.next_u64() };
                let tm = Instant::now();
                let made = match crate::kernel::catch(|| kinds::make(&spec)) {
                    Ok(Ok(m)) => m,
                    Ok(Err(e)) => {
                        report(&mut bad, format!("make {}", kind.name()), format!("{spec:?}: {e}"));
                        continue;
                    }
                    Err(p) => {
                        report(&mut bad, format!("make-panic {}", kind.name()), format!("{spec:?}: {} {}", p.location, p.message));
                        continue;
                    }
                };
                make_time += tm.elapsed();
                files += 1;
                let mut plans = vec![AioPlan::plain()];
                while plans.len() < 4 {
                    let p = c16::gen_aio(&mut rng);
                    if p.is_adversarial() {
                        plans.push(p);
                    }
                }

                // sync observations, once per file
                let ts = Instant::now();
                let sync_reads: Vec<Option<Obs>> = (0..kind.variants())
                    .map(|v| faio::has_async_reader(kind, v).then(|| kinds::read(kind, v, Source::plain(made.bytes.clone()))))
                    .collect();
                let want_write = faio::has_async_writer(kind) && faio::async_writer_supports(&made.model);
                let sync_write: Option<(Vec<u8>, Obs)> = want_write.then(|| {
                    let mut sync_bytes = Vec::new();
                    crate::kernel::fresh_thread(|| kinds::write_to(kind, &made.model, &mut sync_bytes)).unwrap_or_else(|e| panic!("harness: sync write failed: {e}"));
                    let os = kinds::read(kind, 0, Source::plain(Arc::new(sync_bytes.clone())));
                    (sync_bytes, os)
                });
                let sync_query: Option<(kinds::Kind, Arc<Vec<u8>>, Obs)> = match &made.companion {
                    Some((dk, data)) if faio::has_async_query(kind, *dk) => {
                        let o = observe(|o| query::query(kind, &made.bytes, *dk, data.clone(), &mut o.items));
                        Some((*dk, data.clone(), o))
                    }
                    Some(_) => {
                        skipped_query += 1;
                        None
                    }
                    None => None,
                };
                sync_time += ts.elapsed();
                skipped_read += sync_reads.iter().filter(|o| o.is_none()).count() as u64;
                if !faio::has_async_writer(kind) {
                    skipped_write += 1;
                } else if !want_write {
                    skipped_write_model += 1;
                }

                for (pi, plan) in plans.iter().enumerate() {
                    let workers = 1 + rng.usize_below(8);
                    let ctx = |what: &str| format!("{what} spec={} plan#{pi}={} workers={workers}", serde_json::to_string(&spec).unwrap(), serde_json::to_string(plan).unwrap());
                    let new_counters = || -> SharedAio {
                        let c: SharedAio = Arc::new(Mutex::new(AioCounters::default()));
                        c.lock().unwrap().budget = 40_000_000;
                        c
                    };
                    let mut tally = |c: &SharedAio| {
                        let c = c.lock().unwrap();
                        polls += c.polls + c.gate_polls;
                        pendings += c.pending;
                    };

                    // (a) readers
                    for variant in 0..kind.variants() {
                        let Some(o0) = &sync_reads[variant as usize] else { continue };
                        let vn = kinds::variant_name(kind, variant);
                        let what = ctx(&format!("read kind={} variant={variant}({vn})", kind.name()));
                        begin(what.clone());
                        let counters = new_counters();
                        let src = SimAsyncRead::new(made.bytes.clone(), plan.clone(), counters.clone());
                        let r = aexec::run(plan, counters.clone(), || faio::aread(kind, variant, src, workers));
                        done();
                        tally(&counters);
                        n_read += 1;
                        per_kind.entry(kind.name()).or_default()[0] += 1;
                        match r {
                            Err(pn) => report(&mut bad, format!("read {} {vn}: async panic {}", kind.name(), pn.witness()), format!("{what}: panic at {}: {}; sync: {}", pn.location, pn.message, o0.summary())),
                            Ok(o1) => {
                                if o0.items != o1.items || o0.bytes != o1.bytes || end_class(&o0.end) != end_class(&o1.end) {
                                    report(&mut bad, format!("read {} {vn}: observation", kind.name()), format!("{what}: {}", obs_diff(o0, &o1)));
                                }
                            }
                        }
                    }

                    // (b) writer
                    if let Some((sync_bytes, os)) = &sync_write {
                        let what = ctx(&format!("write kind={}", kind.name()));
                        begin(what.clone());
                        let counters = new_counters();
                        let sink = SimAsyncWrite::new(plan.clone(), counters.clone());
                        let s2 = sink.clone();
                        let r = crate::kernel::fresh_thread(|| aexec::run(plan, counters.clone(), || faio::awrite(kind, &made.model, s2, workers)));
                        done();
                        tally(&counters);
                        n_write += 1;
                        per_kind.entry(kind.name()).or_default()[1] += 1;
                        match r {
                            Err(pn) => report(&mut bad, format!("write {}: async panic {}", kind.name(), pn.witness()), format!("{what}: panic at {}: {}", pn.location, pn.message)),
                            Ok(Err(e)) => report(&mut bad, format!("write {}: async error on a fault-free sink", kind.name()), format!("{what}: {e}")),
                            Ok(Ok(())) => {
                                let out = Arc::new(sink.data());
                                let oa = kinds::read(kind, 0, Source::plain(out.clone()));
                                let (ia, is) = (kinds::content_items(&oa.items), kinds::content_items(&os.items));
                                if ia != is || oa.bytes != os.bytes || oa.end != End::Eof {
                                    let i = first_diff(&is, &ia);
                                    report(
                                        &mut bad,
                                        format!("write {}: decoded output", kind.name()),
                                        format!(
                                            "{what}: decode(async output, {} bytes) != decode(sync output, {} bytes): first difference at item {i:?}: sync {:?} / async {:?}; decode ends: sync {:?} / async {:?}",
                                            out.len(),
                                            sync_bytes.len(),
                                            i.and_then(|i| is.get(i)).map(|s| clip(s)),
                                            i.and_then(|i| ia.get(i)).map(|s| clip(s)),
                                            os.end,
                                            oa.end
                                        ),
                                    );
                                } else if !kind.is_bgzf_container() && !faio::compressed_kind(kind) {
                                    if *out != *sync_bytes {
                                        let at = out.iter().zip(sync_bytes).position(|(a, b)| a != b).unwrap_or(out.len().min(sync_bytes.len()));
                                        report(&mut bad, format!("write {}: bytes", kind.name()), format!("{what}: uncompressed format: async output ({} bytes) differs from sync output ({} bytes) at offset {at}", out.len(), sync_bytes.len()));
                                    }
                                } else {
                                    byte_identical_compressed.1 += 1;
                                    if *out == *sync_bytes {
                                        byte_identical_compressed.0 += 1;
                                    }
                                }
                                if !sink.state.lock().unwrap().shutdown {
                                    report(&mut bad, format!("write {}: inner sink not shut down", kind.name()), format!("{what}: the protocol's finishing call returned Ok but poll_shutdown never completed on the sink"));
                                }
                            }
                        }
                    }

                    // (c) query
                    if let Some((dk, data, o0)) = &sync_query {
                        let what = ctx(&format!("query index={} data={}", kind.name(), dk.name()));
                        begin(what.clone());
                        let counters = new_counters();
                        let src = SimAsyncRead::new(data.clone(), plan.clone(), counters.clone());
                        let idx_bytes = made.bytes.clone();
                        let r = aexec::run(plan, counters.clone(), || faio::aquery(kind, idx_bytes, *dk, src, workers));
                        done();
                        tally(&counters);
                        n_query += 1;
                        per_kind.entry(kind.name()).or_default()[2] += 1;
                        match r {
                            Err(pn) => report(&mut bad, format!("query {}->{}: async panic {}", kind.name(), dk.name(), pn.witness()), format!("{what}: panic at {}: {}; sync: {}", pn.location, pn.message, o0.summary())),
                            Ok(o1) => {
                                if o0.items != o1.items || end_class(&o0.end) != end_class(&o1.end) {
                                    report(&mut bad, format!("query {}->{}: results", kind.name(), dk.name()), format!("{what}: {}", obs_diff(o0, &o1)));
                                }
                            }
                        }
                    }
                }
            }
        }
    }
    let dt = t0.elapsed();
    let evals = n_read + n_write + n_query;
    println!("selftest async: coverage per kind (async read / write / query evaluations):");
    for (k, [r, w, q]) in &per_kind {
        println!("  {k:16} read={r:<7} write={w:<7} query={q}");
    }
    println!(
        "selftest async: not covered (per file): reader variants without async twin={skipped_read} kinds without async writer={skipped_write} models the async writer cannot be configured for={skipped_write_model} index/data pairs without async query={skipped_query}"
    );
    println!(
        "selftest async: compressed/BGZF outputs byte-identical to the sync output: {}/{}",
        byte_identical_compressed.0, byte_identical_compressed.1
    );
    if !classes.is_empty() {
        println!("selftest async: mismatch classes:");
        for (c, (n, first)) in &classes {
            println!("  {n:>6} x {c}\n           first: {first}");
        }
    }
    println!(
        "selftest async: seeds={cases} files={files} evaluations={evals} (read={n_read} write={n_write} query={n_query}) mismatches={bad} polls={polls} pending={pendings} elapsed={:.1}s (make {:.1}s, sync twins {:.1}s) throughput={:.0} evaluations/s",
        dt.as_secs_f64(),
        make_time.as_secs_f64(),
        sync_time.as_secs_f64(),
        evals as f64 / dt.as_secs_f64().max(1e-9)
    );
    if bad == 0 { 0 } else { 1 }
}

/// Minimal reproducers of the async-vs-sync differences met while validating fmt::aio on the
/// pinned tree; prints one `PROBE` line each (facts about the tree under test, not pass/fail).
pub fn async_probes() {
    use std::sync::{Arc, Mutex};

    use futures::TryStreamExt;

    use crate::aexec;
    use crate::fmt::kinds;
    use crate::seams::aio::{AioCounters, AioPlan, Part, SharedAio, SimAsyncRead};

    let counters = || -> SharedAio { Arc::new(Mutex::new(AioCounters::default())) };
    let plain = AioPlan::plain();

    // B: the same region queried twice on one async BAM reader
    {
        let spec = kinds::FileSpec { kind: kinds::Kind::Bai, size_class: 1, seed: 1 };
        if let Ok(made) = kinds::make(&spec) {
            if let Some((_, bam)) = made.companion.clone() {
                let sync_counts = (|| -> std::io::Result<Vec<usize>> {
                    let index = noodles_bam::bai::io::Reader::new(&made.bytes[..]).read_index()?;
                    let mut r = noodles_bam::io::Reader::new(std::io::Cursor::new(&bam[..]));
                    let header = r.read_header()?;
                    let Some(name) = header.reference_sequences().keys().next().map(|k| k.to_string()) else { return Ok(vec![]) };
                    let region: noodles_core::Region = name.parse().map_err(std::io::Error::other)?;
                    let mut out = Vec::new();
                    for _ in 0..3 {
                        out.push(r.query(&header, &index, &region)?.records().count());
                    }
                    Ok(out)
                })();
                let c = counters();
                let src = SimAsyncRead::new(bam.clone(), plain.clone(), c.clone());
                let idx = made.bytes.clone();
                let async_counts = aexec::run(&plain, c, || async move {
                    let index = noodles_bam::bai::r#async::io::Reader::new(&idx[..]).read_index().await?;
                    let mut r = noodles_bam::r#async::io::Reader::new(src);
                    let header = r.read_header().await?;
                    let Some(name) = header.reference_sequences().keys().next().map(|k| k.to_string()) else { return Ok(vec![]) };
                    let region: noodles_core::Region = name.parse().map_err(std::io::Error::other)?;
                    let mut out = Vec::new();
                    for _ in 0..3 {
                        let mut s = r.query(&header, &index, &region)?.records();
                        let mut n = 0usize;
                        while s.try_next().await?.is_some() {
                            n += 1;
                        }
                        out.push(n);
                    }
                    Ok::<_, std::io::Error>(out)
                });
                println!("PROBE B (bgzf::async::io::Reader::poll_seek to the target of the previous poll_seek is a no-op): the same region queried 3 times on one BAM reader yields record counts sync {sync_counts:?} / async {:?}", async_counts.map_err(|p| p.message));
            }
        }
    }

    // A: CSI index written by the async writer
    {
        let spec = kinds::FileSpec { kind: kinds::Kind::Csi, size_class: 1, seed: 1 };
        if let Ok(kinds::Made { model: kinds::Model::Csi(index), .. }) = kinds::make(&spec) {
            let mut sync_file = Vec::new();
            let _ = crate::fmt::index::write_csi(&mut sync_file, &index);
            let index = Arc::new(index);
            let i2 = index.clone();
            let c = counters();
            let async_file = aexec::run(&plain, c, || async move {
                let mut w = noodles_csi::r#async::io::Writer::new(Vec::new());
                w.write_index(&i2).await?;
                w.shutdown().await?;
                Ok::<_, std::io::Error>(w.into_inner().into_inner())
            });
            match async_file {
                Ok(Ok(af)) => {
                    let inflate = |f: &[u8]| crate::model::bgzf::walk(f).map(|w| w.data).unwrap_or_default();
                    let (su, au) = (inflate(&sync_file), inflate(&af));
                    let at = su.iter().zip(&au).position(|(a, b)| a != b);
                    let sync_read = noodles_csi::io::Reader::new(&af[..]).read_index().map(|_| "Ok").map_err(|e| e.to_string());
                    let af2 = af.clone();
                    let async_read = aexec::run(&plain, counters(), || async move { noodles_csi::r#async::io::Reader::new(&af2[..]).read_index().await.map(|_| "Ok").map_err(|e| e.to_string()) });
                    println!(
                        "PROBE A (csi::async::io::Writer omits n_ref): uncompressed index: sync writer {} bytes / async writer {} bytes, first difference at offset {at:?} (sync bytes there {:02x?} = n_ref of {} reference sequences); the async writer's file read by the sync reader: {sync_read:?}, by the async reader: {:?}",
                        su.len(),
                        au.len(),
                        at.and_then(|a| su.get(a..a + 4)),
                        noodles_csi::BinningIndex::reference_sequences(&*index).count(),
                        async_read.map_err(|p| p.message)
                    );
                }
                other => println!("PROBE A: async write failed: {:?}", other.map_err(|p| p.message).map(|r| r.map(|_| ()).map_err(|e| e.to_string()))),
            }
        }
    }

    // C: CRAI with two records read by the async reader
    {
        use noodles_cram::crai;
        let text = "0\t1\t10\t100\t20\t300\n0\t11\t10\t400\t20\t300\n";
        let mut gz = Vec::new();
        let index: crai::Index = crai::io::Reader::new(&{
            // gzip through the sync writer
            let recs: Vec<crai::Record> = text
                .lines()
                .map(|l| {
                    let f: Vec<u64> = l.split('\t').map(|x| x.parse().unwrap()).collect();
                    crai::Record::new(Some(f[0] as usize), noodles_core::Position::new(f[1] as usize), f[2] as usize, f[3], f[4], f[5])
                })
                .collect();
            let _ = crate::fmt::index::write_crai(&mut gz, &recs);
            gz.clone()
        }[..])
        .read_index()
        .unwrap_or_default();
        let gz2 = gz.clone();
        let one = {
            let mut g1 = Vec::new();
            let _ = crate::fmt::index::write_crai(&mut g1, &index[..1.min(index.len())].to_vec());
            g1
        };
        let a2 = aexec::run(&plain, counters(), || async move { crai::r#async::io::Reader::new(&gz2[..]).read_index().await.map(|i| i.len()).map_err(|e| e.to_string()) });
        let a1 = aexec::run(&plain, counters(), || async move { crai::r#async::io::Reader::new(&one[..]).read_index().await.map(|i| i.len()).map_err(|e| e.to_string()) });
        println!(
            "PROBE C (crai::async::io::Reader::read_index does not clear its line buffer between records): a 2-record index: sync reader Ok({}) records / async reader {:?}; a 1-record index: async reader {:?}",
            index.len(),
            a2.map_err(|p| p.message),
            a1.map_err(|p| p.message)
        );
    }

    // D: FASTA CRLF sequence lines delivered one byte per poll
    {
        let text = Arc::new(b">s\r\nAC\r\nGT\r\n".to_vec());
        let mut sync_seq = Vec::new();
        {
            let mut r = noodles_fasta::io::Reader::new(&text[..]);
            let mut d = noodles_fasta::record::Definition::default();
            let _ = r.read_definition(&mut d);
            let _ = r.read_sequence(&mut sync_seq);
        }
        let run = |plan: AioPlan| {
            let c = counters();
            let src = SimAsyncRead::new(text.clone(), plan.clone(), c.clone());
            aexec::run(&plan, c, || async move {
                let mut r = noodles_fasta::r#async::io::Reader::new(tokio::io::BufReader::new(src));
                let mut d = noodles_fasta::record::Definition::default();
                r.read_definition(&mut d).await?;
                let mut seq = Vec::new();
                r.read_sequence(&mut seq).await?;
                Ok::<_, std::io::Error>(String::from_utf8_lossy(&seq).into_owned())
            })
            .map_err(|p| p.message)
        };
        let one = AioPlan { part: Part::One, ..AioPlan::plain() };
        println!(
            "PROBE D (fasta::async::io::Reader::read_sequence strips CR only when CR and LF arrive in the same fill_buf window): \">s\\r\\nAC\\r\\nGT\\r\\n\": sync {:?} / async, full reads {:?} / async, 1 byte per poll_read {:?}",
            String::from_utf8_lossy(&sync_seq),
            run(AioPlan::plain()),
            run(one)
        );
    }
}
