//! Counting global allocator: makes allocation outcomes machine-independent.
//!
//! When armed (C15), a single request above `CAP` (1 GiB) is refused: the allocator returns null,
//! `handle_alloc_error` runs, and the alloc-error hook installed by `arm` turns the failure into a
//! panic that the per-case containment catches and attributes to the requesting call site. In the
//! shipped library the same failure is an abort of the process ("memory allocation of N bytes
//! failed"); the panic is only the simulator's way to observe it without losing the worker. This is
//! the "failing allocation" fault of the fault catalogue. The policy is fixed (it does not depend
//! on how much RAM is free): inputs are < 1 MiB, so a single request > 1 GiB is a > 1000-fold
//! amplification driven by an untrusted length or count field (libFuzzer's default malloc limit is
//! 2 GiB; 1 GiB is used so that the 32-bit special value 0x7fffffff is on the refused side too).
//! Requests up to the cap are granted and the large ones are counted (probe `huge_alloc`).

use std::alloc::{GlobalAlloc, Layout, System};
use std::sync::atomic::{AtomicBool, AtomicU64, AtomicUsize, Ordering};

pub const CAP: usize = 1 << 30;
pub const HUGE: usize = 96 << 20;
/// total live heap bytes of the process above which any further request is refused (memory
/// exhaustion by many small allocations driven by a hostile count; libFuzzer's default rss limit
/// is 2 GiB as well)
pub const LIVE_CAP: usize = 2 << 30;

pub struct Gate;

static ARMED: AtomicBool = AtomicBool::new(false);
pub static HUGE_ALLOCS: AtomicU64 = AtomicU64::new(0);
pub static REFUSED: AtomicU64 = AtomicU64::new(0);
pub static LARGEST: AtomicUsize = AtomicUsize::new(0);
static LIVE: AtomicUsize = AtomicUsize::new(0);
static GRACE: AtomicUsize = AtomicUsize::new(0);

pub const REFUSED_MARKER: &str = "nsim: allocation refused";

pub fn arm(on: bool) {
    if on {
        std::alloc::set_alloc_error_hook(|layout| {
            panic!("{REFUSED_MARKER}: memory allocation of {} bytes failed", layout.size());
        });
    }
    ARMED.store(on, Ordering::SeqCst);
}

/// Runs `f` with the policy suspended (used while a refusal is being reported: symbolising the
/// backtrace allocates, and the memory that triggered the refusal is only freed by the unwinding
/// that follows).
pub fn suspended<R>(f: impl FnOnce() -> R) -> R {
    let was = ARMED.swap(false, Ordering::SeqCst);
    let r = f();
    ARMED.store(was, Ordering::SeqCst);
    r
}

/// (granted huge allocations, refused allocations, largest request) since the last call
pub fn take_counters() -> (u64, u64, usize) {
    (
        HUGE_ALLOCS.swap(0, Ordering::SeqCst),
        REFUSED.swap(0, Ordering::SeqCst),
        LARGEST.swap(0, Ordering::SeqCst),
    )
}

#[inline]
fn policy(size: usize) -> bool {
    // returns false if the request must be refused
    if !ARMED.load(Ordering::Relaxed) {
        return true;
    }
    if size >= HUGE {
        LARGEST.fetch_max(size, Ordering::Relaxed);
        if size > CAP {
            REFUSED.fetch_add(1, Ordering::Relaxed);
            return false;
        }
        HUGE_ALLOCS.fetch_add(1, Ordering::Relaxed);
    }
    if LIVE.load(Ordering::Relaxed).saturating_add(size) > LIVE_CAP {
        // the panic that reports a refusal must itself be able to allocate a little
        if size <= (64 << 10)
            && GRACE
                .fetch_update(Ordering::Relaxed, Ordering::Relaxed, |g| g.checked_sub(size))
                .is_ok()
        {
            return true;
        }
        REFUSED.fetch_add(1, Ordering::Relaxed);
        GRACE.store(4 << 20, Ordering::Relaxed);
        return false;
    }
    true
}

#[inline]
fn live_add(size: usize) {
    if ARMED.load(Ordering::Relaxed) {
        LIVE.fetch_add(size, Ordering::Relaxed);
    }
}

#[inline]
fn live_sub(size: usize) {
    if ARMED.load(Ordering::Relaxed) {
        // saturating: blocks allocated before arming are not in the count
        let _ = LIVE.fetch_update(Ordering::Relaxed, Ordering::Relaxed, |v| Some(v.saturating_sub(size)));
    }
}

// SAFETY: forwards to System; only adds a size policy.
unsafe impl GlobalAlloc for Gate {
    unsafe fn alloc(&self, layout: Layout) -> *mut u8 {
        if !policy(layout.size()) {
            return std::ptr::null_mut();
        }
        let p = unsafe { System.alloc(layout) };
        if !p.is_null() {
            live_add(layout.size());
        }
        p
    }

    unsafe fn alloc_zeroed(&self, layout: Layout) -> *mut u8 {
        if !policy(layout.size()) {
            return std::ptr::null_mut();
        }
        let p = unsafe { System.alloc_zeroed(layout) };
        if !p.is_null() {
            live_add(layout.size());
        }
        p
    }

    unsafe fn dealloc(&self, ptr: *mut u8, layout: Layout) {
        unsafe { System.dealloc(ptr, layout) };
        live_sub(layout.size());
    }

    unsafe fn realloc(&self, ptr: *mut u8, layout: Layout, new_size: usize) -> *mut u8 {
        if new_size > layout.size() && !policy(new_size - layout.size()) {
            return std::ptr::null_mut();
        }
        if new_size >= HUGE && new_size > CAP && ARMED.load(Ordering::Relaxed) {
            return std::ptr::null_mut();
        }
        let p = unsafe { System.realloc(ptr, layout, new_size) };
        if !p.is_null() {
            live_sub(layout.size());
            live_add(new_size);
        }
        p
    }
}
