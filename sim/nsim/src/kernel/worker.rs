//! Worker process: runs a slice of the case indices of one check and reports over stdout.
//!
//! Line protocol (one line each, written with a single unbuffered `write(2)`):
//!   `S <idx>`          case idx is about to start
//!   `s <plan-json>`    (announce mode) narrowed plan of the sub-case about to run
//!   `V <json>`         a finding {idx, violation, plan}
//!   `D <json>`         final statistics of this worker

use std::{
    cell::RefCell,
    io::Write,
    panic::{self, AssertUnwindSafe},
    sync::Once,
};

use serde_json::json;

use super::{Check, PanicInfo, RunCtx, Stats, Tier};

thread_local! {
    static LAST_PANIC: RefCell<Option<PanicInfo>> = const { RefCell::new(None) };
    static QUIET: RefCell<bool> = const { RefCell::new(false) };
}

static HOOK: Once = Once::new();

pub fn install_panic_hook() {
    HOOK.call_once(|| {
        let default = panic::take_hook();
        panic::set_hook(Box::new(move |info| {
            let location = info
                .location()
                .map(|l| format!("{}:{}:{}", l.file(), l.line(), l.column()))
                .unwrap_or_else(|| "<unknown>".into());
            let message = if let Some(s) = info.payload().downcast_ref::<&str>() {
                (*s).to_string()
            } else if let Some(s) = info.payload().downcast_ref::<String>() {
                s.clone()
            } else {
                "<non-string panic payload>".into()
            };
            LAST_PANIC.with(|p| *p.borrow_mut() = Some(PanicInfo { location, message }));
            let quiet = QUIET.with(|q| *q.borrow());
            if !quiet {
                default(info);
            }
        }));
    });
}

/// Runs `f`; a panic becomes `Err(PanicInfo)`. Panics on *other* threads are not seen here.
pub fn catch<R>(f: impl FnOnce() -> R) -> Result<R, PanicInfo> {
    install_panic_hook();
    let prev = QUIET.with(|q| q.replace(true));
    LAST_PANIC.with(|p| *p.borrow_mut() = None);
    let r = panic::catch_unwind(AssertUnwindSafe(f));
    QUIET.with(|q| *q.borrow_mut() = prev);
    match r {
        Ok(v) => Ok(v),
        Err(payload) => {
            let info = LAST_PANIC.with(|p| p.borrow_mut().take());
            Err(info.unwrap_or_else(|| {
                let message = if let Some(s) = payload.downcast_ref::<&str>() {
                    (*s).to_string()
                } else if let Some(s) = payload.downcast_ref::<String>() {
                    s.clone()
                } else {
                    "<non-string panic payload>".into()
                };
                PanicInfo {
                    location: "<unknown>".into(),
                    message,
                }
            }))
        }
    }
}

/// Makes panics on the current thread silent (used by simulated threads).
pub fn set_quiet(q: bool) {
    QUIET.with(|c| *c.borrow_mut() = q);
}

pub fn take_last_panic() -> Option<PanicInfo> {
    LAST_PANIC.with(|p| p.borrow_mut().take())
}

pub fn raw_line(s: &str) {
    let mut buf = Vec::with_capacity(s.len() + 1);
    buf.extend_from_slice(s.as_bytes());
    buf.push(b'\n');
    let mut out = std::io::stdout().lock();
    let _ = out.write_all(&buf);
    let _ = out.flush();
}

pub struct Slice {
    pub index: u64,
    pub count: u64,
    pub from: u64,
    /// for case `from` only: skip this many leading sub-cases
    pub skip_subs: u64,
}

/// Runs all case indices `i` with `i % count == index` and `i >= from`.
pub fn run_worker(check: &dyn Check, tier: Tier, master: u64, slice: Slice, limit: Option<u64>) {
    install_panic_hook();
    let n = limit.unwrap_or_else(|| check.n_cases(tier)).min(check.n_cases(tier));
    let mut stats = Stats::default();
    let mut idx = slice.index;
    while idx < n {
        if idx >= slice.from {
            raw_line(&format!("S {idx}"));
            let plan = check.plan(master, idx, tier);
            let findings = {
                let mut ctx = RunCtx::new(&mut stats);
                ctx.announce = check.announce();
                if idx == slice.from {
                    ctx.skip_subs = slice.skip_subs;
                }
                match catch(|| check.execute(&plan, &mut ctx)) {
                    Ok(f) => f,
                    Err(p) => {
                        // a panic that escaped the check's own containment is a harness error
                        raw_line(&format!(
                            "H {}",
                            json!({"idx": idx, "error": format!("harness panic at {}: {}", p.location, p.message), "plan": plan})
                        ));
                        Vec::new()
                    }
                }
            };
            for f in findings {
                raw_line(&format!(
                    "V {}",
                    json!({"idx": idx, "violation": f.violation, "plan": f.plan})
                ));
            }
        }
        idx += slice.count;
    }
    raw_line(&format!("D {}", serde_json::to_string(&stats).unwrap()));
}
