//! Seeded workload generators (pure functions of their parameters).
pub mod bytes;
pub mod sam;
pub mod vcf;
pub mod text;
