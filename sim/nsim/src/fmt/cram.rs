//! CRAM (noodles-cram 0.96): careful-user write/read protocols, the canonical expectation of a
//! CRAM round trip, and harness-only walkers over the container/block structure (boundaries,
//! block locations, checksum re-sealing).
//!
//! Nothing in the walkers, the CRC re-sealer or the MD5 used for the expected header calls into
//! noodles: they are independent opinions written from the CRAM 3.0/3.1 specification.

use std::io::{self, Write};

use noodles_cram as cram;
use noodles_fasta as fasta;
use noodles_sam::{self as sam, alignment::io::Write as _};
use serde::{Deserialize, Serialize};

use super::{
    Source,
    align::{self, Mode, Parsed},
};
use crate::genr::sam::SamModel;
use crate::model::bgzf::crc32;

// ------------------------------------------------------------------------------------- options

/// Writer options varied by the harness.
///
/// `encoder` selects the block-content encoder:
///
/// | n | encoder | how it is wired (public API only) |
/// |---|---------|------------------------------------|
/// | 0 | writer default | no `set_block_content_encoder_map` call (the default map is gzip everywhere) |
/// | 1 | none / raw | `None` everywhere |
/// | 2 | gzip | `Encoder::Gzip(Default::default())` everywhere (explicit map; level cannot be chosen without naming `flate2`) |
/// | 3 | bzip2 | `Encoder::Bzip2(Default::default())` everywhere |
/// | 4 | lzma | `Encoder::Lzma(level)` everywhere, level from `encoder_arg` |
/// | 5 | rANS 4x8 | `Encoder::Rans4x8(Order::Zero / One)` everywhere, order from `encoder_arg` |
/// | 6 | rANS Nx16 | `Encoder::RansNx16(flags)` everywhere, flags from `encoder_arg` (see `NX16_FLAGS`) |
/// | 7 | adaptive arithmetic coder | `Encoder::AdaptiveArithmeticCoding(flags)` everywhere, flags from `encoder_arg` (see `AAC_FLAGS`) |
/// | 8 | name tokenizer | `Encoder::NameTokenizer` for `DataSeries::Names` only; everything else the default (gzip) |
/// | 9 | fqzcomp | `Encoder::Fqzcomp` for `DataSeries::QualityScores` only; everything else the default (gzip) |
///
/// "everywhere" = every standard data series (external blocks), the default encoder, which the
/// writer uses for tag value blocks, and (encoders 1..=4 only) the core data block.
#[derive(Clone, Debug, Serialize, Deserialize, PartialEq)]
pub struct CramOpts {
    pub encoder: u8,
    /// CRAM version selector: 0 => default, 1 => 3.0, 2 => 3.1.
    ///
    /// noodles-cram 0.96 has no public version setter: the writer writes 3.0 unless the encoder map
    /// contains a 3.1 codec (rANS Nx16, arithmetic coder, name tokenizer), in which case it writes
    /// 3.1. Hence 0 and 1 are the same request ("do not force"; encoders 6, 7, 8 still give 3.1),
    /// and 2 forces 3.1 by registering an rANS Nx16 tag-value encoder for a tag (`zz:c`) that the
    /// generator never emits, which flips the version without touching any block that is written.
    /// (fqzcomp, encoder 9, is a 3.1 codec too but the writer does not count it as one: such files
    /// declare 3.0; see `expect_version_3_1`.)
    pub version: u8,
    /// `Builder::preserve_read_names`. With `false` the compression header says RN=false, but the
    /// names of detached records (all records of the cram_safe domain) are still stored and read
    /// back, so the expected items do not depend on it.
    pub preserve_read_names: bool,
    /// `Builder::encode_alignment_start_positions_as_deltas` (AP delta flag); no visible effect on
    /// the records read back.
    pub encode_alignment_start_positions_as_deltas: bool,
    /// sub-variant of the encoder (lzma level, rANS order, rANS Nx16 / arithmetic coder flags);
    /// ignored by encoders without parameters
    #[serde(default)]
    pub encoder_arg: u8,
    /// hook H3 (`set_records_per_slice`, cfg(noodles_verif)); ignored when the hook is absent
    #[serde(default)]
    pub records_per_slice: Option<usize>,
}

impl Default for CramOpts {
    fn default() -> Self {
        CramOpts {
            encoder: 0,
            version: 0,
            preserve_read_names: true,
            encode_alignment_start_positions_as_deltas: true,
            encoder_arg: 0,
            records_per_slice: None,
        }
    }
}

pub const N_ENCODERS: u8 = 10;

/// rANS Nx16 flag bytes selected by `encoder_arg % len`:
/// ORDER=0x01 N32=0x04 STRIPE=0x08 NO_SIZE=0x10 CAT=0x20 RLE=0x40 PACK=0x80
pub const NX16_FLAGS: &[u8] = &[
    0x00, 0x01, 0x04, 0x05, 0x40, 0x41, 0x80, 0x81, 0xc0, 0xc1, 0x08, 0x09, 0x20, 0xc4, 0xc5, 0x44,
];
/// adaptive arithmetic coder flag bytes selected by `encoder_arg % len`:
/// ORDER=0x01 EXT=0x04 STRIPE=0x08 NO_SIZE=0x10 CAT=0x20 RLE=0x40 PACK=0x80
pub const AAC_FLAGS: &[u8] = &[
    0x00, 0x01, 0x40, 0x41, 0x80, 0x81, 0xc0, 0xc1, 0x08, 0x09, 0x20, 0x04, 0x05,
];
/// xz presets selected by `encoder_arg % len`. Only the cheap ones: every block is its own xz
/// stream and both lzma-rust2 coders allocate the preset's dictionary per stream (a file of ~30
/// blocks costs 15 ms to write / 2 ms to read at preset 0, 180 ms / 50 ms at preset 6 and about a
/// second per read at preset 9).
const LZMA_LEVELS: &[u32] = &[0, 1];

fn all_data_series() -> [cram::container::compression_header::data_series_encodings::DataSeries; 28] {
    use cram::container::compression_header::data_series_encodings::DataSeries as D;
    [
        D::BamFlags,
        D::CramFlags,
        D::ReferenceSequenceIds,
        D::ReadLengths,
        D::AlignmentStarts,
        D::ReadGroupIds,
        D::Names,
        D::MateFlags,
        D::MateReferenceSequenceIds,
        D::MateAlignmentStarts,
        D::TemplateLengths,
        D::MateDistances,
        D::TagSetIds,
        D::FeatureCounts,
        D::FeatureCodes,
        D::FeaturePositionDeltas,
        D::DeletionLengths,
        D::StretchesOfBases,
        D::StretchesOfQualityScores,
        D::BaseSubstitutionCodes,
        D::InsertionBases,
        D::ReferenceSkipLengths,
        D::PaddingLengths,
        D::HardClipLengths,
        D::SoftClipBases,
        D::MappingQualities,
        D::Bases,
        D::QualityScores,
    ]
}

/// Whether the unchanged tree reproduces every cram_safe model written with these options.
///
/// False for the rANS 4x8, rANS Nx16, adaptive arithmetic coder and name tokenizer encoders: on the
/// pinned tree their output frequently fails to decode, panics the decoder, or decodes to different
/// bytes (see the report printed by `selftest`); the only exceptions are the arithmetic coder
/// variants that do not entropy-code (CAT 0x20, EXT 0x04/0x05) and rANS Nx16 CAT (0x20). Checks that
/// need an exact oracle must stay on reliable options; the others remain selectable so that the
/// defects stay visible.
pub fn roundtrip_reliable(opts: &CramOpts) -> bool {
    let arg = opts.encoder_arg as usize;
    match opts.encoder % N_ENCODERS {
        5 | 8 => false,
        6 => NX16_FLAGS[arg % NX16_FLAGS.len()] == 0x20,
        7 => matches!(AAC_FLAGS[arg % AAC_FLAGS.len()], 0x20 | 0x04 | 0x05),
        _ => true,
    }
}

/// Whether the file written with these options declares CRAM 3.1.
pub fn expect_version_3_1(opts: &CramOpts) -> bool {
    opts.version == 2 || matches!(opts.encoder % N_ENCODERS, 6 | 7 | 8)
}

pub(crate) fn encoder_map(opts: &CramOpts) -> Option<cram::container::BlockContentEncoderMap> {
    use cram::codecs::{Encoder, aac, rans_4x8, rans_nx16};
    use cram::container::BlockContentEncoderMap;
    use cram::container::compression_header::data_series_encodings::DataSeries;

    let arg = opts.encoder_arg as usize;
    // Some(e): use `e` everywhere
    let uniform: Option<Option<Encoder>> = match opts.encoder % N_ENCODERS {
        1 => Some(None),
        2 => Some(Some(Encoder::Gzip(Default::default()))),
        3 => Some(Some(Encoder::Bzip2(Default::default()))),
        4 => Some(Some(Encoder::Lzma(LZMA_LEVELS[arg % LZMA_LEVELS.len()]))),
        5 => Some(Some(Encoder::Rans4x8(if arg % 2 == 0 {
            rans_4x8::Order::Zero
        } else {
            rans_4x8::Order::One
        }))),
        6 => Some(Some(Encoder::RansNx16(rans_nx16::Flags::from(
            NX16_FLAGS[arg % NX16_FLAGS.len()],
        )))),
        7 => Some(Some(Encoder::AdaptiveArithmeticCoding(aac::Flags::from(
            AAC_FLAGS[arg % AAC_FLAGS.len()],
        )))),
        _ => None,
    };
    let mut b = BlockContentEncoderMap::builder();
    let mut custom = false;
    if let Some(e) = uniform {
        custom = true;
        b = b.set_default_encoder(e.clone());
        // The core data block of a file written by noodles is always empty (every data series is
        // external). The entropy coders 5..=7 keep the default core encoder: the arithmetic coder
        // asserts on empty input (see `probes`), which would hide what it does to real blocks.
        if !matches!(opts.encoder % N_ENCODERS, 5..=7) {
            b = b.set_core_data_encoder(e.clone());
        }
        for ds in all_data_series() {
            b = b.set_data_series_encoder(ds, e.clone());
        }
    }
    match opts.encoder % N_ENCODERS {
        8 => {
            custom = true;
            b = b.set_data_series_encoder(DataSeries::Names, Some(Encoder::NameTokenizer));
        }
        9 => {
            custom = true;
            b = b.set_data_series_encoder(DataSeries::QualityScores, Some(Encoder::Fqzcomp));
        }
        _ => {}
    }
    if opts.version == 2 {
        use cram::container::compression_header::preservation_map::tag_sets::Key;
        use sam::alignment::record::data::field::{Tag, Type};
        custom = true;
        // a tag the generator never emits (its tags are [XYZ][a-z])
        let key = Key::new(Tag::new(b'z', b'z'), Type::Int8);
        b = b.set_tag_values_encoder(key, Some(Encoder::RansNx16(rans_nx16::Flags::empty())));
    }
    custom.then(|| b.build())
}

// ---------------------------------------------------------------------------------- protocols

/// Builds the reference repository noodles-cram needs from the model's reference sequences.
pub fn repository(refs: &[(String, Vec<u8>)]) -> fasta::Repository {
    use fasta::record::{Definition, Sequence};
    let records: Vec<fasta::Record> = refs
        .iter()
        .map(|(name, seq)| fasta::Record::new(Definition::new(name.as_str(), None), Sequence::from(seq.clone())))
        .collect();
    fasta::Repository::new(records)
}

/// Fallback for the H3 hook: inherent methods win over trait methods, so when the hook
/// (`Builder::set_records_per_slice`, added by h3.patch under cfg(noodles_verif)) is present it is
/// called, and when it is absent this no-op is.
#[allow(dead_code)]
trait RecordsPerSliceFallback: Sized {
    fn set_records_per_slice(self, _n: usize) -> Self {
        self
    }
}
impl RecordsPerSliceFallback for cram::io::writer::Builder {}

fn writer_builder(refs: &[(String, Vec<u8>)], opts: &CramOpts) -> cram::io::writer::Builder {
    let mut b = cram::io::writer::Builder::default()
        .set_reference_sequence_repository(repository(refs))
        .preserve_read_names(opts.preserve_read_names)
        .encode_alignment_start_positions_as_deltas(opts.encode_alignment_start_positions_as_deltas);
    if let Some(map) = encoder_map(opts) {
        b = b.set_block_content_encoder_map(map);
    }
    #[cfg(noodles_verif)]
    if let Some(n) = opts.records_per_slice {
        b = b.set_records_per_slice(n.max(1));
    }
    b
}

/// Careful-user write protocol: builder (repository, options) -> build_from_writer(w) ->
/// write_header -> write_alignment_record* -> try_finish(&header).
pub fn write_cram<W: Write>(w: W, parsed: &Parsed, refs: &[(String, Vec<u8>)], opts: &CramOpts) -> io::Result<()> {
    let mut w = writer_builder(refs, opts).build_from_writer(w);
    w.write_header(&parsed.header)?;
    for r in &parsed.records {
        w.write_alignment_record(&parsed.header, r)?;
    }
    w.try_finish(&parsed.header)
}

/// How `read_cram_with` turns the `cram::Record`s of a slice into text.
#[derive(Clone, Copy, PartialEq, Eq, Debug)]
pub enum Render {
    /// `RecordBuf::try_from_alignment_record(&header, &record)` first (what `Reader::records` does)
    ViaRecordBuf,
    /// straight through the `sam::alignment::Record` trait implementation of `cram::Record`
    Direct,
}

/// Read protocol.
///
/// `Mode::Lazy`: `reader.records(&header)` (yields `RecordBuf`s, one whole container at a time).
/// `Mode::Buf`: container-level decoding under the caller's control: `read_container` loop,
/// `compression_header()`, `slices()`, `decode_blocks()`, `records(..)`; every `cram::Record` is
/// converted with `RecordBuf::try_from_alignment_record` and rendered. Both yield the same items
/// on valid files. (Rendering the `cram::Record` directly through the trait is available as
/// `read_cram_with(.., Render::Direct, ..)`; it repeats the RG tag, see `selftest`.)
pub fn read_cram(src: Source, refs: &[(String, Vec<u8>)], mode: Mode, items: &mut Vec<String>) -> io::Result<()> {
    match mode {
        Mode::Lazy => {
            let mut r = cram::io::reader::Builder::default()
                .set_reference_sequence_repository(repository(refs))
                .build_from_reader(src.into_read());
            let header = r.read_header()?;
            items.push(format!("H|{}", align::render_header(&header)?));
            for rec in r.records(&header) {
                let rec = rec?;
                items.push(format!("R|{}", align::render_record(&header, &rec)?));
            }
            Ok(())
        }
        Mode::Buf => read_cram_with(src, refs, Render::ViaRecordBuf, items),
    }
}

/// Container-level read protocol (see `read_cram`).
pub fn read_cram_with(src: Source, refs: &[(String, Vec<u8>)], render: Render, items: &mut Vec<String>) -> io::Result<()> {
    let repo = repository(refs);
    let mut r = cram::io::reader::Builder::default()
        .set_reference_sequence_repository(repo.clone())
        .build_from_reader(src.into_read());
    let header = r.read_header()?;
    items.push(format!("H|{}", align::render_header(&header)?));
    let mut container = cram::io::reader::Container::default();
    while r.read_container(&mut container)? != 0 {
        let compression_header = container.compression_header()?;
        for slice in container.slices() {
            let slice = slice?;
            let (core, external) = slice.decode_blocks()?;
            let records = slice.records(repo.clone(), &header, &compression_header, &core, &external)?;
            for rec in &records {
                let line = match render {
                    Render::ViaRecordBuf => {
                        let buf = sam::alignment::RecordBuf::try_from_alignment_record(&header, rec)?;
                        align::render_record(&header, &buf)?
                    }
                    Render::Direct => align::render_record(&header, rec)?,
                };
                items.push(format!("R|{line}"));
            }
        }
    }
    Ok(())
}

// ------------------------------------------------------------------------ canonical expectation

/// MD5 (RFC 1321), harness implementation (used for the @SQ M5 values of the expected header).
pub fn md5(data: &[u8]) -> [u8; 16] {
    const S: [u32; 64] = [
        7, 12, 17, 22, 7, 12, 17, 22, 7, 12, 17, 22, 7, 12, 17, 22, 5, 9, 14, 20, 5, 9, 14, 20, 5, 9, 14, 20, 5, 9,
        14, 20, 4, 11, 16, 23, 4, 11, 16, 23, 4, 11, 16, 23, 4, 11, 16, 23, 6, 10, 15, 21, 6, 10, 15, 21, 6, 10, 15,
        21, 6, 10, 15, 21,
    ];
    const K: [u32; 64] = [
        0xd76aa478, 0xe8c7b756, 0x242070db, 0xc1bdceee, 0xf57c0faf, 0x4787c62a, 0xa8304613, 0xfd469501, 0x698098d8,
        0x8b44f7af, 0xffff5bb1, 0x895cd7be, 0x6b901122, 0xfd987193, 0xa679438e, 0x49b40821, 0xf61e2562, 0xc040b340,
        0x265e5a51, 0xe9b6c7aa, 0xd62f105d, 0x02441453, 0xd8a1e681, 0xe7d3fbc8, 0x21e1cde6, 0xc33707d6, 0xf4d50d87,
        0x455a14ed, 0xa9e3e905, 0xfcefa3f8, 0x676f02d9, 0x8d2a4c8a, 0xfffa3942, 0x8771f681, 0x6d9d6122, 0xfde5380c,
        0xa4beea44, 0x4bdecfa9, 0xf6bb4b60, 0xbebfbc70, 0x289b7ec6, 0xeaa127fa, 0xd4ef3085, 0x04881d05, 0xd9d4d039,
        0xe6db99e5, 0x1fa27cf8, 0xc4ac5665, 0xf4292244, 0x432aff97, 0xab9423a7, 0xfc93a039, 0x655b59c3, 0x8f0ccc92,
        0xffeff47d, 0x85845dd1, 0x6fa87e4f, 0xfe2ce6e0, 0xa3014314, 0x4e0811a1, 0xf7537e82, 0xbd3af235, 0x2ad7d2bb,
        0xeb86d391,
    ];
    let mut msg = data.to_vec();
    msg.push(0x80);
    while msg.len() % 64 != 56 {
        msg.push(0);
    }
    msg.extend_from_slice(&((data.len() as u64).wrapping_mul(8)).to_le_bytes());
    let (mut a0, mut b0, mut c0, mut d0) = (0x67452301u32, 0xefcdab89u32, 0x98badcfeu32, 0x10325476u32);
    for chunk in msg.chunks_exact(64) {
        let mut m = [0u32; 16];
        for (i, w) in chunk.chunks_exact(4).enumerate() {
            m[i] = u32::from_le_bytes(w.try_into().unwrap());
        }
        let (mut a, mut b, mut c, mut d) = (a0, b0, c0, d0);
        for i in 0..64 {
            let (f, g) = match i / 16 {
                0 => ((b & c) | (!b & d), i),
                1 => ((d & b) | (!d & c), (5 * i + 1) % 16),
                2 => (b ^ c ^ d, (3 * i + 5) % 16),
                _ => (c ^ (b | !d), (7 * i) % 16),
            };
            let f2 = f.wrapping_add(a).wrapping_add(K[i]).wrapping_add(m[g]);
            a = d;
            d = c;
            c = b;
            b = b.wrapping_add(f2.rotate_left(S[i]));
        }
        a0 = a0.wrapping_add(a);
        b0 = b0.wrapping_add(b);
        c0 = c0.wrapping_add(c);
        d0 = d0.wrapping_add(d);
    }
    let mut out = [0u8; 16];
    out[0..4].copy_from_slice(&a0.to_le_bytes());
    out[4..8].copy_from_slice(&b0.to_le_bytes());
    out[8..12].copy_from_slice(&c0.to_le_bytes());
    out[12..16].copy_from_slice(&d0.to_le_bytes());
    out
}

fn hex_lower(b: &[u8]) -> String {
    let mut s = String::with_capacity(b.len() * 2);
    for x in b {
        s.push_str(&format!("{x:02x}"));
    }
    s
}

/// SAM spec §1.3.2 reference MD5: uppercase, characters outside '!'..='~' removed.
fn reference_md5_hex(seq: &[u8]) -> String {
    let norm: Vec<u8> = seq
        .iter()
        .filter(|b| b.is_ascii_graphic())
        .map(|b| b.to_ascii_uppercase())
        .collect();
    hex_lower(&md5(&norm))
}

/// Expected header text of a CRAM round trip.
///
/// Rule H1 (documented by `Writer::write_file_header`): every @SQ line without an `M5` field gets
/// `M5:<md5 of the reference sequence, lowercase hex>` appended as its last field. Nothing else in
/// the header changes.
pub fn canonical_header(model: &SamModel) -> String {
    let mut out = String::with_capacity(model.header.len() + 40 * model.refs.len());
    for line in model.header.split_inclusive('\n') {
        let body = line.strip_suffix('\n').unwrap_or(line);
        if body.starts_with("@SQ\t") && !body.split('\t').any(|f| f.starts_with("M5:")) {
            let name = body.split('\t').find_map(|f| f.strip_prefix("SN:")).unwrap_or("");
            match model.refs.iter().find(|(n, _)| n == name) {
                Some((_, seq)) => {
                    out.push_str(body);
                    out.push_str("\tM5:");
                    out.push_str(&reference_md5_hex(seq));
                    out.push('\n');
                }
                None => out.push_str(line),
            }
        } else {
            out.push_str(line);
        }
    }
    out
}

/// Expected record line of a CRAM round trip.
///
/// Rule R1 (CRAM spec §8.4/§10: the mapping quality is part of the *mapped read* fields): a record
/// with FLAG bit 0x4 (unmapped) comes back with MAPQ 255 whatever was written.
///
/// Nothing else changes inside the cram_safe generator domain. In particular read names survive
/// `preserve_read_names == false`: CRAM keeps the names of "detached" records (records whose mate
/// is not linked inside the slice) even when RN=false, and every record of the domain (no paired
/// flags) is detached.
pub fn canonical_record(line: &str, _opts: &CramOpts) -> String {
    let mut f: Vec<&str> = line.split('\t').collect();
    if f.len() >= 11 {
        let flag: u32 = f[1].parse().unwrap_or(0);
        if flag & 0x4 != 0 {
            f[4] = "255";
        }
    }
    f.join("\t")
}

/// Expected "H|..." / "R|..." items of a CRAM round trip of `model` written with `opts`, derived
/// from the model text alone by rules H1 and R1 above.
pub fn canonical_expected(model: &SamModel, opts: &CramOpts) -> Vec<String> {
    let mut v = Vec::with_capacity(model.records.len() + 1);
    v.push(format!("H|{}", canonical_header(model)));
    for r in &model.records {
        v.push(format!("R|{}", canonical_record(r, opts)));
    }
    v
}

// ------------------------------------------------------------------------------------- walkers

const FILE_DEFINITION_LEN: usize = 26;

struct Cur<'a> {
    b: &'a [u8],
    p: usize,
}

impl<'a> Cur<'a> {
    fn u8(&mut self) -> Result<u8, String> {
        let x = *self.b.get(self.p).ok_or_else(|| format!("unexpected end of file at {}", self.p))?;
        self.p += 1;
        Ok(x)
    }
    fn i32_le(&mut self) -> Result<i32, String> {
        let s = self.b.get(self.p..self.p + 4).ok_or_else(|| format!("unexpected end of file at {}", self.p))?;
        self.p += 4;
        Ok(i32::from_le_bytes(s.try_into().unwrap()))
    }
    /// ITF8 (CRAM spec §2.3): the number of leading 1 bits of the first byte gives the number of
    /// following bytes (0..=4); with 4 following bytes only the low 4 bits of the last one are used.
    fn itf8(&mut self) -> Result<i32, String> {
        let b0 = self.u8()? as u32;
        let v: u32 = if b0 & 0x80 == 0 {
            b0
        } else if b0 & 0x40 == 0 {
            ((b0 & 0x3f) << 8) | self.u8()? as u32
        } else if b0 & 0x20 == 0 {
            let b1 = self.u8()? as u32;
            let b2 = self.u8()? as u32;
            ((b0 & 0x1f) << 16) | (b1 << 8) | b2
        } else if b0 & 0x10 == 0 {
            let b1 = self.u8()? as u32;
            let b2 = self.u8()? as u32;
            let b3 = self.u8()? as u32;
            ((b0 & 0x0f) << 24) | (b1 << 16) | (b2 << 8) | b3
        } else {
            let b1 = self.u8()? as u32;
            let b2 = self.u8()? as u32;
            let b3 = self.u8()? as u32;
            let b4 = self.u8()? as u32;
            ((b0 & 0x0f) << 28) | (b1 << 20) | (b2 << 12) | (b3 << 4) | (b4 & 0x0f)
        };
        Ok(v as i32)
    }
    /// LTF8: like ITF8 with up to 8 following bytes.
    fn ltf8(&mut self) -> Result<i64, String> {
        let b0 = self.u8()?;
        let n = b0.leading_ones() as usize; // number of following bytes (0..=8)
        let mut v: u64 = if n >= 7 { 0 } else { (b0 as u64) & (0xffu64 >> (n + 1)) };
        for _ in 0..n {
            v = (v << 8) | self.u8()? as u64;
        }
        Ok(v as i64)
    }
}

/// One parsed container header.
#[derive(Clone, Debug)]
pub struct ContainerLoc {
    pub start: usize,
    /// bytes from `start` up to and including the header CRC32
    pub header_len: usize,
    /// the `length` field: total size of the blocks that follow the header
    pub body_len: usize,
    pub n_blocks: usize,
    pub n_records: i32,
    /// the header's global record counter (0-based index of the container's first record) and base count
    pub record_counter: i64,
    pub bases: i64,
    pub landmarks: Vec<usize>,
    /// offset of the header's CRC32 (4 bytes LE)
    pub crc_offset: usize,
}

fn parse_container_header(file: &[u8], start: usize) -> Result<ContainerLoc, String> {
    let mut c = Cur { b: file, p: start };
    let len = c.i32_le()?;
    if len < 0 {
        return Err(format!("container at {start}: negative length {len}"));
    }
    let _ref_id = c.itf8()?;
    let _start = c.itf8()?;
    let _span = c.itf8()?;
    let n_records = c.itf8()?;
    let record_counter = c.ltf8()?;
    let bases = c.ltf8()?;
    let n_blocks = c.itf8()?;
    let n_landmarks = c.itf8()?;
    if n_blocks < 0 || n_landmarks < 0 {
        return Err(format!("container at {start}: negative count"));
    }
    let mut landmarks = Vec::new();
    for _ in 0..n_landmarks {
        let l = c.itf8()?;
        if l < 0 {
            return Err(format!("container at {start}: negative landmark"));
        }
        landmarks.push(l as usize);
    }
    let crc_offset = c.p;
    let _crc = c.i32_le()?;
    Ok(ContainerLoc {
        start,
        header_len: c.p - start,
        body_len: len as usize,
        n_blocks: n_blocks as usize,
        n_records,
        record_counter,
        bases,
        landmarks,
        crc_offset,
    })
}

/// All containers of a file (header container first, EOF container last).
pub fn containers(file: &[u8]) -> Result<Vec<ContainerLoc>, String> {
    if file.len() < FILE_DEFINITION_LEN {
        return Err("shorter than the file definition".into());
    }
    if &file[..4] != b"CRAM" {
        return Err("bad magic".into());
    }
    if file[4] != 3 {
        return Err(format!("unsupported major version {}", file[4]));
    }
    let mut out = Vec::new();
    let mut p = FILE_DEFINITION_LEN;
    while p < file.len() {
        let c = parse_container_header(file, p)?;
        let end = p
            .checked_add(c.header_len)
            .and_then(|x| x.checked_add(c.body_len))
            .ok_or("overflow")?;
        if end > file.len() {
            return Err(format!("container at {p}: body of {} bytes runs past the end of the file", c.body_len));
        }
        p = end;
        out.push(c);
    }
    Ok(out)
}

/// Independent walker over the CRAM container structure: the byte offset of the first container
/// (26, directly after the file definition), of every following container, and the file length.
pub fn container_boundaries(file: &[u8]) -> Result<Vec<usize>, String> {
    let cs = containers(file)?;
    let mut b: Vec<usize> = cs.iter().map(|c| c.start).collect();
    if b.is_empty() {
        b.push(FILE_DEFINITION_LEN);
    }
    if *b.last().unwrap() != file.len() {
        b.push(file.len());
    }
    Ok(b)
}

#[derive(Clone, Debug, PartialEq, Eq)]
pub struct BlockLoc {
    pub container_start: usize,
    pub container_header_len: usize,
    pub block_start: usize,
    pub payload_start: usize,
    pub payload_len: usize,
    /// offset of the block's trailing CRC32 (4 bytes LE)
    pub crc_offset: usize,
    /// block compression method byte (0 raw, 1 gzip, 2 bzip2, 3 lzma, 4 rANS 4x8, 5 rANS Nx16,
    /// 6 arithmetic coder, 7 fqzcomp, 8 name tokenizer)
    pub method: u8,
    /// block content type byte (0 file header, 1 compression header, 2 slice header, 4 external
    /// data, 5 core data)
    pub content_type: u8,
    pub content_id: i32,
    pub raw_len: usize,
}

fn parse_block(file: &[u8], c: &ContainerLoc, start: usize, limit: usize) -> Result<BlockLoc, String> {
    let mut cur = Cur { b: &file[..limit], p: start };
    let method = cur.u8()?;
    let content_type = cur.u8()?;
    let content_id = cur.itf8()?;
    let size = cur.itf8()?;
    let raw = cur.itf8()?;
    if size < 0 || raw < 0 {
        return Err(format!("block at {start}: negative size"));
    }
    let payload_start = cur.p;
    let crc_offset = payload_start + size as usize;
    if crc_offset + 4 > limit {
        return Err(format!("block at {start}: payload of {size} bytes runs past the container end {limit}"));
    }
    Ok(BlockLoc {
        container_start: c.start,
        container_header_len: c.header_len,
        block_start: start,
        payload_start,
        payload_len: size as usize,
        crc_offset,
        method,
        content_type,
        content_id,
        raw_len: raw as usize,
    })
}

/// Independent walker, finer: every block of every container.
///
/// The file header container may be padded after its block(s) (spec §7.1); blocks are walked
/// `n_blocks` times per container, the remainder of the container body is left alone.
pub fn block_locations(file: &[u8]) -> Result<Vec<BlockLoc>, String> {
    let mut out = Vec::new();
    for c in containers(file)? {
        let mut p = c.start + c.header_len;
        let limit = p + c.body_len;
        for _ in 0..c.n_blocks {
            let b = parse_block(file, &c, p, limit)?;
            p = b.crc_offset + 4;
            out.push(b);
        }
    }
    Ok(out)
}

/// Recomputes, in place, the checksum that covers absolute offset `off`: the block CRC32 if `off`
/// is inside a block (header or payload), the container header CRC32 if `off` is inside a container
/// header before its CRC field. Offsets inside a CRC field, the file definition or container
/// padding change nothing. Returns Ok(true) if a checksum was rewritten.
///
/// The (possibly modified) file is walked only as far as the structure that contains `off`, so
/// everything before it is unmodified and parses as written.
pub fn reseal(file: &mut [u8], off: usize) -> Result<bool, String> {
    if off >= file.len() {
        return Err(format!("offset {off} beyond the file length {}", file.len()));
    }
    if off < FILE_DEFINITION_LEN {
        return Ok(false);
    }
    let mut p = FILE_DEFINITION_LEN;
    while p < file.len() {
        let c = parse_container_header(file, p)?;
        if off < c.crc_offset {
            let crc = crc32(&file[c.start..c.crc_offset]);
            file[c.crc_offset..c.crc_offset + 4].copy_from_slice(&crc.to_le_bytes());
            return Ok(true);
        }
        if off < c.crc_offset + 4 {
            return Ok(false);
        }
        let body = c.start + c.header_len;
        let end = body.checked_add(c.body_len).ok_or("overflow")?;
        if end > file.len() {
            return Err(format!("container at {p}: body runs past the end of the file"));
        }
        if off < end {
            let mut q = body;
            for _ in 0..c.n_blocks {
                let b = parse_block(file, &c, q, end)?;
                if off < b.crc_offset {
                    let crc = crc32(&file[b.block_start..b.crc_offset]);
                    file[b.crc_offset..b.crc_offset + 4].copy_from_slice(&crc.to_le_bytes());
                    return Ok(true);
                }
                if off < b.crc_offset + 4 {
                    return Ok(false);
                }
                q = b.crc_offset + 4;
            }
            // padding after the last block
            return Ok(false);
        }
        p = end;
    }
    Ok(false)
}

// ------------------------------------------------------------------------------------ selftest

/// Generator parameters of selftest / domain case `idx` (cram_safe models of 0..300 records).
pub fn gen_params(rng: &mut crate::kernel::Rng, idx: u64) -> crate::genr::sam::SamParams {
    let n_records = match idx % 5 {
        0 => rng.usize_below(4),
        1 => 1 + rng.usize_below(12),
        2 => 10 + rng.usize_below(60),
        _ => rng.usize_below(300),
    };
    crate::genr::sam::SamParams {
        seed: rng.next_u64(),
        n_refs: match rng.below(6) {
            0 => 0,
            1 => 1,
            _ => 1 + rng.usize_below(4),
        },
        n_records,
        sorted: rng.bool(),
        max_len: *rng.pick(&[1usize, 5, 30, 30, 120, 400]),
        aux: rng.chance(3, 4),
        long_fields: rng.chance(1, 6),
        cram_safe: true,
        all_mapped: false,
        all_unmapped: false,
        long_read: false,
    }
}

pub fn gen_opts(rng: &mut crate::kernel::Rng) -> CramOpts {
    CramOpts {
        encoder: rng.below(N_ENCODERS as u64) as u8,
        version: rng.below(3) as u8,
        preserve_read_names: rng.chance(3, 4),
        encode_alignment_start_positions_as_deltas: rng.bool(),
        encoder_arg: rng.below(256) as u8,
        records_per_slice: None,
    }
}

/// Short name of the encoder variant selected by `opts` (for reports).
pub fn variant_name(opts: &CramOpts) -> String {
    let arg = opts.encoder_arg as usize;
    match opts.encoder % N_ENCODERS {
        0 => "0:default".into(),
        1 => "1:raw".into(),
        2 => "2:gzip".into(),
        3 => "3:bzip2".into(),
        4 => format!("4:lzma-{}", LZMA_LEVELS[arg % LZMA_LEVELS.len()]),
        5 => format!("5:rans4x8-o{}", arg % 2),
        6 => format!("6:nx16[{:#04x}]", NX16_FLAGS[arg % NX16_FLAGS.len()]),
        7 => format!("7:aac[{:#04x}]", AAC_FLAGS[arg % AAC_FLAGS.len()]),
        8 => "8:name-tokenizer".into(),
        _ => "9:fqzcomp".into(),
    }
}

/// Whether the H3 hook is effective in this build (probe: 3 records at 1 record per slice must give
/// header + 3 data + EOF containers).
pub fn records_per_slice_hook_present() -> bool {
    let model = SamModel {
        header: String::new(),
        records: (0..3).map(|i| format!("r{i}\t4\t*\t0\t0\t*\t*\t0\t0\tACGT\tIIII")).collect(),
        refs: Vec::new(),
    };
    let Ok(parsed) = align::parse_model(&model) else { return false };
    let opts = CramOpts { records_per_slice: Some(1), ..CramOpts::default() };
    let mut file = Vec::new();
    if write_cram(&mut file, &parsed, &model.refs, &opts).is_err() {
        return false;
    }
    matches!(containers(&file), Ok(cs) if cs.len() == 5)
}

const SAM_COLS: [&str; 11] = ["QNAME", "FLAG", "RNAME", "POS", "MAPQ", "CIGAR", "RNEXT", "PNEXT", "TLEN", "SEQ", "QUAL"];

fn diff_class(got: Option<&String>, want: Option<&String>) -> String {
    match (got, want) {
        (Some(g), Some(w)) => {
            if g.starts_with("H|") || w.starts_with("H|") {
                return "header".into();
            }
            let gf: Vec<&str> = g.split('\t').collect();
            let wf: Vec<&str> = w.split('\t').collect();
            let mut cols = Vec::new();
            for i in 0..gf.len().max(wf.len()) {
                if gf.get(i) != wf.get(i) {
                    cols.push(if i < 11 { SAM_COLS[i].to_string() } else { "aux".to_string() });
                }
            }
            cols.dedup();
            format!("cols {}", cols.join(","))
        }
        (None, Some(_)) => "missing items".into(),
        (Some(_), None) => "extra items".into(),
        (None, None) => "?".into(),
    }
}

/// Removes the repeated RG field of a directly rendered `cram::Record` line (known defect, see
/// `selftest`): if the line has two identical `RG:Z:` fields, the last one is dropped.
fn without_repeated_rg(line: &str) -> Option<String> {
    let f: Vec<&str> = line.split('\t').collect();
    let rgs: Vec<usize> = (11..f.len()).filter(|&i| f[i].starts_with("RG:Z:")).collect();
    if rgs.len() == 2 && f[rgs[0]] == f[rgs[1]] && rgs[1] == f.len() - 1 {
        Some(f[..f.len() - 1].join("\t"))
    } else {
        None
    }
}

/// Minimal reproducers of the normalisation rules and of the defects met while validating the
/// domain; prints one `PROBE` line each (facts about the tree under test, not pass/fail).
pub fn probes() {
    use std::sync::Arc;

    use super::{End, observe};

    fn model(header: &str, rec: &str, refs: &[(&str, &[u8])]) -> SamModel {
        SamModel {
            header: header.to_string(),
            records: vec![rec.to_string()],
            refs: refs.iter().map(|(n, s)| (n.to_string(), s.to_vec())).collect(),
        }
    }
    fn write(m: &SamModel, opts: &CramOpts) -> Result<Vec<u8>, String> {
        let parsed = align::parse_model(m).map_err(|e| format!("model does not parse: {e}"))?;
        let mut file = Vec::new();
        match crate::kernel::catch(|| write_cram(&mut file, &parsed, &m.refs, opts)) {
            Ok(Ok(())) => Ok(file),
            Ok(Err(e)) => Err(format!("write error: {e}")),
            Err(p) => Err(format!("write PANIC at {}: {}", p.location, p.message)),
        }
    }
    fn read(file: Vec<u8>, m: &SamModel, render: Option<Render>) -> String {
        let file = Arc::new(file);
        let obs = observe(|o| match render {
            None => read_cram(Source::plain(file.clone()), &m.refs, Mode::Lazy, &mut o.items),
            Some(r) => read_cram_with(Source::plain(file.clone()), &m.refs, r, &mut o.items),
        });
        let recs: Vec<&String> = obs.items.iter().filter(|i| i.starts_with("R|")).collect();
        match obs.end {
            End::Eof => format!("{recs:?}"),
            other => format!("{recs:?} then {other:?}"),
        }
    }
    let d = CramOpts::default();

    let unmapped = model("", "r0\t4\t*\t0\t0\t*\t*\t0\t0\tACGT\tIIII", &[]);
    match write(&unmapped, &d) {
        Ok(f) => println!("PROBE rule R1 (unmapped MAPQ): wrote {:?}, read {}", unmapped.records[0], read(f, &unmapped, None)),
        Err(e) => println!("PROBE rule R1: {e}"),
    }

    let past_end = model("@SQ\tSN:sq0\tLN:10\n", "r0\t0\tsq0\t8\t30\t5M\t*\t0\t0\tTACGT\tIIIII", &[("sq0", b"ACGTACGTAC")]);
    println!(
        "PROBE read past the reference end (sq0 has 10 bases, 5M at 8): {}",
        match write(&past_end, &d) {
            Ok(f) => format!("written, read {}", read(f, &past_end, None)),
            Err(e) => e,
        }
    );

    let rg = model("@RG\tID:rg0\n", "r0\t4\t*\t0\t255\t*\t*\t0\t0\tACGT\tIIII\tRG:Z:rg0", &[]);
    match write(&rg, &d) {
        Ok(f) => println!(
            "PROBE RG tag: via RecordBuf {} / cram::Record rendered directly {}",
            read(f.clone(), &rg, Some(Render::ViaRecordBuf)),
            read(f, &rg, Some(Render::Direct))
        ),
        Err(e) => println!("PROBE RG tag: {e}"),
    }

    let fqz = CramOpts { encoder: 9, ..CramOpts::default() };
    match write(&unmapped, &fqz) {
        Ok(f) => {
            let blocks = block_locations(&f).unwrap_or_default();
            let q: Vec<String> = blocks
                .iter()
                .filter(|b| b.method == 7)
                .map(|b| format!("content id {} compressed size {} raw size field {} (4 quality scores were written)", b.content_id, b.payload_len, b.raw_len))
                .collect();
            println!("PROBE fqzcomp: file declares CRAM {}.{}; fqzcomp blocks: {q:?}; read {}", f[4], f[5], read(f.clone(), &unmapped, None));
        }
        Err(e) => println!("PROBE fqzcomp: {e}"),
    }

    {
        use cram::codecs::{Encoder, aac};
        let map = cram::container::BlockContentEncoderMap::builder()
            .set_core_data_encoder(Some(Encoder::AdaptiveArithmeticCoding(aac::Flags::empty())))
            .build();
        let res = align::parse_model(&unmapped).map_err(|e| e.to_string()).and_then(|parsed| {
            let mut w = cram::io::writer::Builder::default().set_block_content_encoder_map(map).build_from_writer(Vec::new());
            match crate::kernel::catch(|| {
                w.write_header(&parsed.header)?;
                for r in &parsed.records {
                    w.write_alignment_record(&parsed.header, r)?;
                }
                w.try_finish(&parsed.header)
            }) {
                Ok(Ok(())) => Ok(()),
                Ok(Err(e)) => Err(format!("write error: {e}")),
                Err(p) => Err(format!("write PANIC at {}: {}", p.location, p.message)),
            }
        });
        println!("PROBE arithmetic coder (flags 0x00) as the core data block encoder (the core block is always empty): {res:?}");
    }
    let aac = CramOpts { encoder: 7, encoder_arg: 0, ..CramOpts::default() };
    println!(
        "PROBE arithmetic coder (flags 0x00) on every external block of a 1-record file: {}",
        match write(&unmapped, &aac) {
            Ok(f) => format!("written, read {}", read(f, &unmapped, None)),
            Err(e) => e,
        }
    );
    let r1 = CramOpts { encoder: 5, encoder_arg: 1, ..CramOpts::default() };
    println!(
        "PROBE rANS 4x8 order 1 on every block of a 1-record file: {}",
        match write(&unmapped, &r1) {
            Ok(f) => format!("written, read {}", read(f, &unmapped, None)),
            Err(e) => e,
        }
    );
    let r0 = CramOpts { encoder: 5, encoder_arg: 0, ..CramOpts::default() };
    println!(
        "PROBE rANS 4x8 order 0 on every block of a 1-record file: {}",
        match write(&unmapped, &r0) {
            Ok(f) => format!("written, read {}", read(f, &unmapped, None)),
            Err(e) => e,
        }
    );
    let nx = CramOpts { encoder: 6, encoder_arg: 0, ..CramOpts::default() };
    println!(
        "PROBE rANS Nx16 order 0 on every block of a 1-record file: {}",
        match write(&unmapped, &nx) {
            Ok(f) => format!("written, read {}", read(f, &unmapped, None)),
            Err(e) => e,
        }
    );
    let tok = CramOpts { encoder: 8, ..CramOpts::default() };
    println!(
        "PROBE name tokenizer on a 1-record file: {}",
        match write(&unmapped, &tok) {
            Ok(f) => format!("written, read {}", read(f, &unmapped, None)),
            Err(e) => e,
        }
    );
}

#[derive(Default, Debug)]
struct FlipStats {
    flips: u64,
    /// the modified header no longer describes a structure inside the file (header flips only)
    unsealable: u64,
    same: u64,
    different: u64,
    err_other: u64,
    /// checksum carried inside a payload (gzip, bzip2, xz) or the slice's reference MD5
    err_inner: u64,
    /// "container header checksum mismatch" / "container block checksum mismatch"
    err_seal: u64,
    panics: u64,
}

/// Domain validation + walker checks (`nsim selftest cram --cases N [--seed S] [--flips K]`).
///
/// For every generated model: two option sets (one cycling through the encoders, one random), each
/// written with `write_cram` and read back with both `read_cram` modes and with the direct trait
/// rendering; all must equal `canonical_expected`. Then the walkers are checked against the file and
/// against noodles' own stream positions, and `flips` random bits per file (block payload, block
/// header or container header) are flipped, re-sealed and read again.
///
/// The exit status covers the options inside `roundtrip_reliable`, the walkers and the re-sealer;
/// what the other encoders do is reported under KNOWN-DEFECT.
pub fn selftest(seed: u64, cases: u64, flips_per_file: u64) -> i32 {
    use std::collections::BTreeMap;
    use std::sync::Arc;
    use std::time::{Duration, Instant};

    use super::{End, clip, first_diff, observe};
    use crate::kernel::{Rng, prng};

    let mut bad = 0u64;
    let verbose = std::env::var_os("NSIM_CRAM_VERBOSE").is_some();
    let only_encoder: Option<u8> = std::env::var("NSIM_CRAM_ENCODER").ok().and_then(|s| s.parse().ok());
    // failures aggregated by class (the text before " :: "), with count and first example
    let mut classes: BTreeMap<String, (u64, String)> = BTreeMap::new();
    let mut report = |bad: &mut u64, msg: String| {
        *bad += 1;
        let class = msg.split(" :: ").next().unwrap_or("").to_string();
        let e = classes.entry(class).or_insert_with(|| (0, msg.clone()));
        e.0 += 1;
        if verbose && *bad <= 200 {
            println!("{msg}");
        }
    };
    // failures of the round trip itself under options outside `roundtrip_reliable`
    let mut unreliable_bad = 0u64;
    let mut unreliable_files = 0u64;
    let mut unreliable_classes: BTreeMap<String, (u64, String)> = BTreeMap::new();
    let mut report_unreliable = |n: &mut u64, msg: String| {
        *n += 1;
        let class = msg.split(" :: ").next().unwrap_or("").to_string();
        let e = unreliable_classes.entry(class).or_insert_with(|| (0, msg.clone()));
        e.0 += 1;
    };

    // MD5 known answers
    for (input, want) in [
        (&b""[..], "d41d8cd98f00b204e9800998ecf8427e"),
        (&b"abc"[..], "900150983cd24fb0d6963f7d28e17f72"),
        (&b"ACGT"[..], "f1f8f4bf413b16ad135722aa4591043e"),
        (
            &b"12345678901234567890123456789012345678901234567890123456789012345678901234567890"[..],
            "57edf4a22be3c955ac49da2e2107b67a",
        ),
    ] {
        if hex_lower(&md5(input)) != want {
            report(&mut bad, format!("MD5 self-check :: failed for {:?}", String::from_utf8_lossy(input)));
        }
    }

    probes();
    let hook = records_per_slice_hook_present();
    println!("selftest cram: records-per-slice hook present: {hook}");

    let t0 = Instant::now();
    let mut files = 0u64;
    let mut reads = 0u64;
    let mut records_total = 0u64;
    let mut bytes_total = 0u64;
    let mut multi_container = 0u64;
    let mut per_encoder = [0u64; N_ENCODERS as usize];
    let mut wtime = [Duration::ZERO; N_ENCODERS as usize];
    let mut rtime = [Duration::ZERO; N_ENCODERS as usize];
    let mut methods_seen: BTreeMap<u8, u64> = BTreeMap::new();
    let mut fs: [FlipStats; 3] = Default::default();
    let mut panic_sites: BTreeMap<String, (u64, String)> = BTreeMap::new();
    let mut crc_msgs: BTreeMap<String, u64> = BTreeMap::new();
    let mut rg_repeats = 0u64;
    let (mut fqz_blocks, mut fqz_raw_is_compressed) = (0u64, 0u64);
    let mut flip_time = Duration::ZERO;
    let mut gen_time = Duration::ZERO;

    for idx in 0..cases {
        let tg = Instant::now();
        let mut rng = Rng::new(prng::derive(seed, "cram-selftest", idx));
        let params = gen_params(&mut rng, idx);
        let model = crate::genr::sam::generate(&params);
        let parsed = match align::parse_model(&model) {
            Ok(p) => p,
            Err(e) => {
                report(&mut bad, format!("PARSE-MODEL :: {params:?}: {e}"));
                continue;
            }
        };
        gen_time += tg.elapsed();
        // two option sets per model: one cycling through the encoders, one random
        let mut o1 = gen_opts(&mut rng);
        o1.encoder = (idx % N_ENCODERS as u64) as u8;
        let mut o2 = gen_opts(&mut rng);
        if hook {
            if rng.chance(1, 2) {
                o1.records_per_slice = Some(1 + rng.usize_below(40));
            }
            if rng.chance(1, 2) {
                o2.records_per_slice = Some(1 + rng.usize_below(40));
            }
        }
        for opts in [o1, o2] {
            if only_encoder.is_some_and(|e| e != opts.encoder) {
                continue;
            }
            let enc = (opts.encoder % N_ENCODERS) as usize;
            let vn = variant_name(&opts);
            let ctx = format!("idx={idx} seed={seed} {params:?} {opts:?}");
            let mut file = Vec::new();
            let tw = Instant::now();
            let wres = crate::kernel::catch(|| write_cram(&mut file, &parsed, &model.refs, &opts));
            wtime[enc] += tw.elapsed();
            let reliable = roundtrip_reliable(&opts);
            if !reliable {
                unreliable_files += 1;
            }
            match wres {
                Ok(Ok(())) => {}
                Ok(Err(e)) => {
                    let msg = format!("WRITE-ERROR {vn} {e} :: {ctx}");
                    if reliable { report(&mut bad, msg) } else { report_unreliable(&mut unreliable_bad, msg) }
                    continue;
                }
                Err(p) => {
                    let w = crate::kernel::PanicInfo { location: p.location.clone(), message: String::new() }.witness();
                    let msg = format!("WRITE-PANIC {vn} {w} {} :: {ctx}", p.message);
                    if reliable { report(&mut bad, msg) } else { report_unreliable(&mut unreliable_bad, msg) }
                    continue;
                }
            }
            files += 1;
            records_total += model.records.len() as u64;
            bytes_total += file.len() as u64;
            per_encoder[enc] += 1;
            let file = Arc::new(file);
            let expected = canonical_expected(&model, &opts);

            // version bytes
            let want_minor = if expect_version_3_1(&opts) { 1 } else { 0 };
            if file.len() < 6 || file[4] != 3 || file[5] != want_minor {
                report(&mut bad, format!("VERSION {vn} :: {ctx}: got {:?} want 3.{want_minor}", &file[4..6.min(file.len())]));
            }

            // round trip: both modes + direct trait rendering
            let tr = Instant::now();
            let mut roundtrip_ok = true;
            for variant in 0..3u8 {
                reads += 1;
                let name = ["Lazy", "Buf", "Direct"][variant as usize];
                let obs = observe(|o| match variant {
                    0 => read_cram(Source::plain(file.clone()), &model.refs, Mode::Lazy, &mut o.items),
                    1 => read_cram(Source::plain(file.clone()), &model.refs, Mode::Buf, &mut o.items),
                    _ => read_cram_with(Source::plain(file.clone()), &model.refs, Render::Direct, &mut o.items),
                });
                let mut got = obs.items;
                if variant == 2 {
                    // known defect: the directly rendered record repeats the RG tag
                    for (g, w) in got.iter_mut().zip(&expected) {
                        if g != w {
                            if let Some(fixed) = without_repeated_rg(g) {
                                if &fixed == w {
                                    rg_repeats += 1;
                                    *g = fixed;
                                }
                            }
                        }
                    }
                }
                let end_class = match &obs.end {
                    End::Eof => "eof".to_string(),
                    End::Err { kind, msg } => format!("Err({kind}: {msg})"),
                    End::Panic { witness, msg } => format!("PANIC {witness} {}", msg.rsplit(": ").next().unwrap_or("")),
                };
                if obs.end != End::Eof || got != expected {
                    roundtrip_ok = false;
                }
                if obs.end != End::Eof {
                    let msg = format!("READ {vn} {name} {end_class} :: {ctx}");
                    if reliable { report(&mut bad, msg) } else { report_unreliable(&mut unreliable_bad, msg) }
                } else if got != expected {
                    let d = first_diff(&got, &expected);
                    let cls = d.map(|i| diff_class(got.get(i), expected.get(i))).unwrap_or_default();
                    let mut msg = format!("MISMATCH {vn} {name} {cls} :: {ctx} first_diff={d:?}");
                    if let Some(i) = d {
                        msg.push_str(&format!(
                            "\n     got: {:?}\n    want: {:?}",
                            got.get(i).map(|s| clip(s)),
                            expected.get(i).map(|s| clip(s))
                        ));
                    }
                    if reliable { report(&mut bad, msg) } else { report_unreliable(&mut unreliable_bad, msg) }
                }
            }
            rtime[enc] += tr.elapsed();

            // walkers
            let bounds = match container_boundaries(&file) {
                Ok(b) => b,
                Err(e) => {
                    report(&mut bad, format!("WALK boundaries :: {ctx}: {e}"));
                    continue;
                }
            };
            let increasing = bounds.windows(2).all(|w| w[0] < w[1]);
            if bounds.first() != Some(&FILE_DEFINITION_LEN) || bounds.last() != Some(&file.len()) || !increasing {
                report(&mut bad, format!("WALK boundaries :: {ctx}: bad boundaries {bounds:?} len={}", file.len()));
            }
            // header container + data containers + EOF container
            let n_data = bounds.len().saturating_sub(3);
            if n_data > 1 {
                multi_container += 1;
            }
            let want_data = match (model.records.len(), opts.records_per_slice.filter(|_| hook)) {
                (0, _) => 0,
                (n, Some(k)) => n.div_ceil(k),
                (n, None) => n.div_ceil(10240),
            };
            if n_data != want_data {
                report(&mut bad, format!("WALK container count :: {ctx}: {n_data} data containers, expected {want_data}"));
            }
            // cross-check against noodles' own stream positions
            {
                let mut r = cram::io::Reader::new(std::io::Cursor::new(&file[..]));
                let mut seen = vec![FILE_DEFINITION_LEN];
                let res: io::Result<()> = (|| {
                    r.read_header()?;
                    seen.push(r.position()? as usize);
                    let mut c = cram::io::reader::Container::default();
                    while r.read_container(&mut c)? != 0 {
                        seen.push(r.position()? as usize);
                    }
                    Ok(())
                })();
                // `seen` = start of header container, start of every data container, start of the
                // EOF container
                if res.is_err() || seen[..] != bounds[..bounds.len() - 1] {
                    report(&mut bad, format!("WALK vs noodles :: {ctx}: noodles positions {seen:?} ({res:?}) vs walker {bounds:?}"));
                }
            }
            let blocks = match block_locations(&file) {
                Ok(b) => b,
                Err(e) => {
                    report(&mut bad, format!("BLOCKS walk :: {ctx}: {e}"));
                    continue;
                }
            };
            for b in &blocks {
                *methods_seen.entry(b.method).or_default() += 1;
                if b.method == 7 {
                    fqz_blocks += 1;
                    if b.raw_len == b.payload_len {
                        fqz_raw_is_compressed += 1;
                    }
                }
                let stored = u32::from_le_bytes(file[b.crc_offset..b.crc_offset + 4].try_into().unwrap());
                if crc32(&file[b.block_start..b.crc_offset]) != stored {
                    report(&mut bad, format!("BLOCKS crc :: {ctx}: harness CRC differs from stored CRC at block {}", b.block_start));
                }
            }
            let cs = containers(&file).unwrap_or_default();
            for c in &cs {
                let stored = u32::from_le_bytes(file[c.crc_offset..c.crc_offset + 4].try_into().unwrap());
                if crc32(&file[c.start..c.crc_offset]) != stored {
                    report(&mut bad, format!("BLOCKS container crc :: {ctx}: harness CRC differs from stored container header CRC at {}", c.start));
                }
            }
            // blocks tile every container body exactly (no padding in files noodles writes)
            {
                let mut k = 0;
                for c in &cs {
                    let mut p = c.start + c.header_len;
                    for _ in 0..c.n_blocks {
                        if blocks[k].block_start != p {
                            report(&mut bad, format!("BLOCKS tiling :: {ctx}: block {k} at {} expected {p}", blocks[k].block_start));
                        }
                        p = blocks[k].crc_offset + 4;
                        k += 1;
                    }
                    if p != c.start + c.header_len + c.body_len {
                        report(&mut bad, format!("BLOCKS tiling :: {ctx}: container at {} body ends at {p}", c.start));
                    }
                    // landmarks point at slice header blocks (content type 2)
                    for &l in &c.landmarks {
                        let at = c.start + c.header_len + l;
                        if !blocks.iter().any(|b| b.block_start == at && b.content_type == 2) {
                            report(&mut bad, format!("BLOCKS landmarks :: {ctx}: landmark {l} of container at {} is not a slice header block", c.start));
                        }
                    }
                }
            }
            // reseal of an untouched file is the identity, wherever it is asked to look
            for _ in 0..3 {
                let mut copy = (*file).clone();
                let off = rng.usize_below(file.len());
                match reseal(&mut copy, off) {
                    Ok(_) if copy == *file => {}
                    other => report(&mut bad, format!("RESEAL identity :: {ctx}: reseal at {off} changed the file or failed: {other:?}")),
                }
            }

            // flip a bit, reseal, read: 3/5 inside a block payload, 1/5 inside a block header, 1/5
            // inside a container header. Only files whose fault-free round trip is exact take part.
            let tf = Instant::now();
            let candidates: Vec<&BlockLoc> = blocks.iter().filter(|b| b.payload_len > 0).collect();
            for _ in 0..flips_per_file {
                if !(reliable && roundtrip_ok) || candidates.is_empty() {
                    break;
                }
                let where_ = rng.below(5);
                let (kind, off, what) = if where_ < 3 {
                    let b = *rng.pick(&candidates);
                    (0usize, b.payload_start + rng.usize_below(b.payload_len), format!("payload of a block of type {} method {}", b.content_type, b.method))
                } else if where_ == 3 {
                    let b = rng.pick(&blocks);
                    (1, b.block_start + rng.usize_below(b.payload_start - b.block_start), format!("header of a block of type {}", b.content_type))
                } else {
                    let c = rng.pick(&cs);
                    (2, c.start + rng.usize_below(c.crc_offset - c.start), "container header".to_string())
                };
                let bit = 1u8 << rng.below(8);
                let mut copy = (*file).clone();
                copy[off] ^= bit;
                let st = &mut fs[kind];
                st.flips += 1;
                match reseal(&mut copy, off) {
                    Ok(true) => {}
                    Err(_) if kind != 0 => {
                        // the modified length fields no longer describe a structure inside the file
                        st.unsealable += 1;
                        continue;
                    }
                    other => {
                        report(&mut bad, format!("RESEAL flip :: {ctx}: flip at {off} ({what}): {other:?}"));
                        continue;
                    }
                }
                if kind == 0 {
                    // only the 4 bytes of the block's CRC may differ besides the flipped byte
                    let b = blocks.iter().find(|b| (b.payload_start..b.crc_offset).contains(&off)).unwrap();
                    let changed: Vec<usize> = (0..copy.len()).filter(|&i| copy[i] != file[i]).collect();
                    if changed.iter().any(|&i| i != off && !(b.crc_offset..b.crc_offset + 4).contains(&i)) {
                        report(&mut bad, format!("RESEAL flip :: {ctx}: flip at {off} changed bytes {changed:?}"));
                    }
                }
                let copy = Arc::new(copy);
                let mode = if rng.bool() { Mode::Lazy } else { Mode::Buf };
                let obs = observe(|o| read_cram(Source::plain(copy.clone()), &model.refs, mode, &mut o.items));
                match &obs.end {
                    End::Eof => {
                        if obs.items == expected {
                            st.same += 1;
                        } else {
                            st.different += 1;
                        }
                    }
                    End::Err { msg, .. } => {
                        let l = msg.to_ascii_lowercase();
                        if l.contains("container header checksum mismatch") || l.contains("container block checksum mismatch") {
                            st.err_seal += 1;
                            if kind == 0 {
                                report(&mut bad, format!("RESEAL not accepted :: {ctx}: flip at {off} bit {bit:#x} ({what}): {msg}"));
                            }
                        } else if l.contains("checksum") || l.contains("crc") {
                            st.err_inner += 1;
                            let key: String = msg.split(':').next().unwrap_or("").to_string();
                            *crc_msgs.entry(format!("\"{key}\" after a flip in the {what}")).or_default() += 1;
                        } else {
                            st.err_other += 1;
                        }
                    }
                    End::Panic { witness, msg } => {
                        st.panics += 1;
                        let e = panic_sites
                            .entry(witness.clone())
                            .or_insert_with(|| (0, format!("{msg} | first: {ctx} off={off} bit={bit:#x} mode={mode:?} ({what})")));
                        e.0 += 1;
                    }
                }
            }
            flip_time += tf.elapsed();
        }
    }
    let dt = t0.elapsed();
    let rt = dt.saturating_sub(flip_time).saturating_sub(gen_time);
    println!(
        "selftest cram: models={cases} files={files} reads={reads} records={records_total} bad={bad} bytes={bytes_total} multi-container-files={multi_container}"
    );
    println!("  files per encoder: {per_encoder:?}");
    println!(
        "  write ms per file by encoder: {:?}",
        (0..N_ENCODERS as usize).map(|i| (wtime[i].as_secs_f64() * 1e3 / per_encoder[i].max(1) as f64).round() as u64).collect::<Vec<_>>()
    );
    println!(
        "  3 reads ms per file by encoder: {:?}",
        (0..N_ENCODERS as usize).map(|i| (rtime[i].as_secs_f64() * 1e3 / per_encoder[i].max(1) as f64).round() as u64).collect::<Vec<_>>()
    );
    println!("  block methods seen (method byte -> blocks): {methods_seen:?}");
    println!(
        "  time: total {:.2}s (generate+parse {:.2}s, flips {:.2}s); write + 3 reads + walks {:.2}s => {:.0} files/s",
        dt.as_secs_f64(),
        gen_time.as_secs_f64(),
        flip_time.as_secs_f64(),
        rt.as_secs_f64(),
        files as f64 / rt.as_secs_f64().max(1e-9)
    );
    println!("  KNOWN-DEFECT rg-repeat: {rg_repeats} directly rendered records carried the RG tag twice");
    println!("  KNOWN-DEFECT fqzcomp-raw-size: {fqz_raw_is_compressed} of {fqz_blocks} fqzcomp blocks carry their compressed size in the raw size field");
    for (i, name) in ["payload", "block header", "container header"].iter().enumerate() {
        println!("  flips in {name}: {:?}", fs[i]);
    }
    for (k, n) in &crc_msgs {
        println!("  inner checksum error after reseal: {n} x {k}");
    }
    for (site, (n, first)) in &panic_sites {
        println!("  FLIP-PANIC {n} x {site}: {first}");
    }
    println!(
        "  KNOWN-DEFECT unreliable encoders (rANS 4x8, rANS Nx16, arithmetic coder, name tokenizer): {unreliable_bad} failed writes/reads over {unreliable_files} files"
    );
    // one line per encoder variant and outcome (the three read variants fail alike: show Lazy only)
    for (class, (n, first)) in &unreliable_classes {
        if class.contains(" Buf ") || class.contains(" Direct ") {
            continue;
        }
        if verbose {
            println!("    {n} x {class}\n       first: {first}");
        } else {
            println!("    {n} x {class}");
        }
    }
    for (class, (n, first)) in &classes {
        println!("  BAD {n} x {class}\n     first: {first}");
    }
    if bad == 0 { 0 } else { 1 }
}

/// Like `reseal`, but the structure containing `off` is located in the *original* (valid) file and
/// the checksum is recomputed over the same byte range of the mutated file. Mutations that change
/// a length field therefore still get "their" checksum re-sealed, and the walker never has to
/// parse corrupted headers.
pub fn reseal_with_layout(file: &mut [u8], original: &[u8], off: usize) -> Result<bool, String> {
    if file.len() != original.len() || off >= file.len() || off < FILE_DEFINITION_LEN {
        return Ok(false);
    }
    for c in containers(original)? {
        if off >= c.start && off < c.crc_offset {
            let crc = crc32(&file[c.start..c.crc_offset]);
            file[c.crc_offset..c.crc_offset + 4].copy_from_slice(&crc.to_le_bytes());
            return Ok(true);
        }
    }
    for b in block_locations(original)? {
        if off >= b.block_start && off < b.crc_offset {
            let crc = crc32(&file[b.block_start..b.crc_offset]);
            file[b.crc_offset..b.crc_offset + 4].copy_from_slice(&crc.to_le_bytes());
            return Ok(true);
        }
    }
    Ok(false)
}
