//! Text formats: FASTA, FASTQ, GFF3, GTF, BED readers (and their indexers) as reader kinds.
//! Rendering uses the types' Debug implementations (deterministic, field-complete).

use std::io::{self, BufRead};

use noodles_bed as bed;
use noodles_fasta as fasta;
use noodles_fastq as fastq;
use noodles_gff as gff;
use noodles_gtf as gtf;

use super::Source;
use crate::genr::text::{FastaModel, FastqModel};

fn lossy(b: &[u8]) -> String {
    String::from_utf8_lossy(b).into_owned()
}

pub fn fasta_expected(m: &FastaModel) -> Vec<String> {
    m.records
        .iter()
        .map(|r| {
            format!(
                "R|{}|{}|{}",
                r.name,
                r.description.clone().unwrap_or_else(|| "-".into()),
                lossy(&r.sequence)
            )
        })
        .collect()
}

pub fn read_fasta(src: Source, variant: u8, items: &mut Vec<String>) -> io::Result<()> {
    let src = src.into_buf();
    match variant % 3 {
        0 => {
            let mut r = fasta::io::Reader::new(src);
            for rec in r.records() {
                let rec = rec?;
                items.push(format!(
                    "R|{}|{}|{}",
                    lossy(rec.name()),
                    rec.description().map(|d| lossy(d)).unwrap_or_else(|| "-".into()),
                    lossy(rec.sequence().as_ref())
                ));
            }
        }
        1 => {
            // definition / sequence calls separately
            let mut r = fasta::io::Reader::new(src);
            let mut def = String::new();
            let mut seq = Vec::new();
            loop {
                def.clear();
                if r.read_line_compat(&mut def)? == 0 {
                    break;
                }
                seq.clear();
                r.read_sequence(&mut seq)?;
                items.push(format!("D|{def}|{}", lossy(&seq)));
            }
        }
        _ => {
            let mut ix = fasta::io::Indexer::new(src);
            while let Some(rec) = ix.index_record().map_err(io::Error::from)? {
                items.push(format!("I|{rec:?}"));
            }
        }
    }
    Ok(())
}

/// `read_definition` with a definition buffer, rendered as text.
trait FastaCompat {
    fn read_line_compat(&mut self, out: &mut String) -> io::Result<usize>;
}

impl<R: BufRead> FastaCompat for fasta::io::Reader<R> {
    fn read_line_compat(&mut self, out: &mut String) -> io::Result<usize> {
        let mut def = fasta::record::Definition::default();
        let n = self.read_definition(&mut def)?;
        out.push_str(&format!("{def:?}"));
        Ok(n)
    }
}

pub fn fastq_expected(m: &FastqModel) -> Vec<String> {
    m.records
        .iter()
        .map(|r| {
            format!(
                "R|{}|{}|{}|{}",
                r.name,
                r.description,
                lossy(&r.sequence),
                lossy(&r.quality)
            )
        })
        .collect()
}

pub fn read_fastq(src: Source, variant: u8, items: &mut Vec<String>) -> io::Result<()> {
    let src = src.into_buf();
    match variant % 2 {
        0 => {
            let mut r = fastq::io::Reader::new(src);
            for rec in r.records() {
                let rec = rec?;
                items.push(format!(
                    "R|{}|{}|{}|{}",
                    lossy(rec.name()),
                    lossy(rec.description()),
                    lossy(rec.sequence()),
                    lossy(rec.quality_scores())
                ));
            }
        }
        _ => {
            let mut ix = fastq::io::Indexer::new(src);
            while let Some(rec) = ix.index_record()? {
                items.push(format!("I|{rec:?}"));
            }
        }
    }
    Ok(())
}

pub fn read_gff(src: Source, variant: u8, items: &mut Vec<String>) -> io::Result<()> {
    let mut r = gff::io::Reader::new(src.into_buf());
    if variant % 3 == 2 {
        for line in r.line_bufs() {
            items.push(format!("B|{:?}", line?));
        }
        return Ok(());
    }
    match variant % 3 {
        0 => {
            for line in r.lines() {
                let line = line?;
                let raw: &bstr::BStr = line.as_ref();
                items.push(format!("L|{raw}"));
                if let Some(rec) = line.as_record() {
                    let rec = rec?;
                    items.push(format!("F|{rec:?}"));
                }
            }
        }
        _ => {
            for rec in r.record_bufs() {
                let rec = rec?;
                items.push(format!("R|{rec:?}"));
            }
        }
    }
    Ok(())
}

pub fn read_gtf(src: Source, variant: u8, items: &mut Vec<String>) -> io::Result<()> {
    let mut r = gtf::io::Reader::new(src.into_buf());
    match variant % 2 {
        0 => {
            for line in r.lines() {
                let line = line?;
                let raw: &bstr::BStr = line.as_ref();
                items.push(format!("L|{raw}"));
                if let Some(rec) = line.as_record() {
                    let rec = rec?;
                    items.push(format!("F|{rec:?}"));
                }
            }
        }
        _ => {
            for rec in r.record_bufs() {
                let rec = rec?;
                items.push(format!("R|{rec:?}"));
            }
        }
    }
    Ok(())
}

pub fn read_bed(src: Source, _variant: u8, items: &mut Vec<String>) -> io::Result<()> {
    let mut r = bed::io::Reader::<3, _>::new(src.into_buf());
    let mut rec = bed::Record::<3>::default();
    loop {
        if r.read_record(&mut rec)? == 0 {
            break;
        }
        // touch the typed accessors too
        let start = rec.feature_start()?;
        let end = rec.feature_end().transpose()?;
        let raw = format!("{rec:?}");
        items.push(format!("R|{raw}|{start:?}|{end:?}|{:?}", rec.other_fields()));
    }
    Ok(())
}

// ------------------------------------------------------------- write protocols (careful user)

use std::io::Write;

use crate::genr::text::LinesModel;

pub fn write_fasta<W: Write>(w: W, m: &FastaModel, width: usize) -> io::Result<()> {
    let width = std::num::NonZero::new(width.max(1)).unwrap();
    let mut w = fasta::io::writer::Builder::default()
        .set_line_base_count(width)
        .build_from_writer(w);
    for r in &m.records {
        let def = fasta::record::Definition::new(r.name.as_str(), r.description.clone().map(bstr::BString::from));
        let rec = fasta::Record::new(def, fasta::record::Sequence::from(r.sequence.clone()));
        w.write_record(&rec)?;
    }
    w.get_mut().flush()
}

pub fn write_fastq<W: Write>(w: W, m: &FastqModel) -> io::Result<()> {
    let mut w = fastq::io::Writer::new(w);
    for r in &m.records {
        let def = fastq::record::Definition::new(r.name.as_str(), r.description.as_str());
        let rec = fastq::Record::new(def, r.sequence.clone(), r.quality.clone());
        w.write_record(&rec)?;
    }
    w.get_mut().flush()
}

pub fn write_gff<W: Write>(w: W, m: &LinesModel) -> io::Result<()> {
    let mut r = gff::io::Reader::new(&m.text[..]);
    let lines = r.line_bufs().collect::<io::Result<Vec<_>>>()?;
    let mut w = gff::io::Writer::new(w);
    for l in &lines {
        w.write_line(l)?;
    }
    w.get_mut().flush()
}

pub fn write_gtf<W: Write>(w: W, m: &LinesModel) -> io::Result<()> {
    let mut r = gtf::io::Reader::new(&m.text[..]);
    let lines = r.line_bufs().collect::<io::Result<Vec<_>>>()?;
    let mut w = gtf::io::Writer::new(w);
    for l in &lines {
        w.write_line(l)?;
    }
    w.get_mut().flush()
}

pub fn write_bed<W: Write>(w: W, m: &LinesModel) -> io::Result<()> {
    let mut r = bed::io::Reader::<3, _>::new(&m.text[..]);
    // the builder wraps the sink in a BufWriter: the protocol ends with a flush
    let mut w = bed::io::writer::Builder::<3>.build_from_writer(w);
    let mut rec = bed::Record::<3>::default();
    while r.read_record(&mut rec)? != 0 {
        w.write_record(&rec)?;
    }
    w.get_mut().flush()
}
