//! Index values built in memory with noodles' own indexers (the same logic as `*/fs::index`, minus
//! the path), and the index reader/writer protocols.

use std::io::{self, Read, Write};

use noodles_bam::{self as bam, bai};
use noodles_bcf as bcf;
use noodles_bgzf as bgzf;
use noodles_csi::{
    self as csi,
    binning_index::{Indexer, index::reference_sequence::bin::Chunk},
};
use noodles_fasta::{self as fasta, fai};
use noodles_sam::alignment::Record as _;
use noodles_tabix as tabix;
use noodles_vcf::{self as vcf, variant::Record as _};

fn bam_index_with<I>(bam_bytes: &[u8]) -> io::Result<csi::binning_index::Index<I>>
where
    I: csi::binning_index::index::reference_sequence::Index + Default,
{
    let mut reader = bam::io::Reader::new(bam_bytes);
    let header = reader.read_header()?;
    let mut record = bam::Record::default();
    let mut builder = Indexer::<I>::default();
    let mut start_position = reader.get_ref().virtual_position();
    while reader.read_record(&mut record)? != 0 {
        let end_position = reader.get_ref().virtual_position();
        let chunk = Chunk::new(start_position, end_position);
        let ctx = match (
            record.reference_sequence_id().transpose()?,
            record.alignment_start().transpose()?,
            record.alignment_end().transpose()?,
        ) {
            (Some(id), Some(start), Some(end)) => Some((id, start, end, !record.flags().is_unmapped())),
            _ => None,
        };
        builder.add_record(ctx, chunk)?;
        start_position = end_position;
    }
    Ok(builder.build(header.reference_sequences().len()))
}

pub fn bai_from_bam(bam_bytes: &[u8]) -> io::Result<bai::Index> {
    bam_index_with(bam_bytes)
}

pub fn csi_from_bam(bam_bytes: &[u8]) -> io::Result<csi::Index> {
    bam_index_with(bam_bytes)
}

/// An in-memory built CSI index does not survive a write/read round trip unchanged (per-bin
/// loffsets of bins other than the first of each level come back as the parent's value). That is
/// index round-trip territory (C17, not claimed); the harness uses the once-round-tripped index as
/// its model so that "what was written" is a fixed point.
pub fn csi_normalise(idx: &csi::Index) -> io::Result<csi::Index> {
    let mut buf = Vec::new();
    write_csi(&mut buf, idx)?;
    csi::io::Reader::new(&buf[..]).read_index()
}

pub fn csi_from_bcf(bcf_bytes: &[u8]) -> io::Result<csi::Index> {
    let mut reader = bcf::io::Reader::new(bcf_bytes);
    let header = reader.read_header()?;
    let mut indexer = Indexer::default();
    let mut record = bcf::Record::default();
    let mut start_position = reader.get_ref().virtual_position();
    while reader.read_record(&mut record)? != 0 {
        let end_position = reader.get_ref().virtual_position();
        let chunk = Chunk::new(start_position, end_position);
        let id = record.reference_sequence_id()?;
        let start = record
            .variant_start()
            .transpose()?
            .ok_or_else(|| io::Error::new(io::ErrorKind::InvalidData, "missing variant start"))?;
        let end = record.variant_end(&header)?;
        indexer.add_record(Some((id, start, end, true)), chunk)?;
        start_position = end_position;
    }
    Ok(indexer.build(header.contigs().len()))
}

pub fn tabix_from_vcfgz(vcfgz: &[u8]) -> io::Result<tabix::Index> {
    let mut reader = vcf::io::Reader::new(bgzf::io::Reader::new(vcfgz));
    let header = reader.read_header()?;
    let mut indexer = tabix::index::Indexer::default();
    indexer.set_header(csi::binning_index::index::header::Builder::vcf().build());
    let mut record = vcf::Record::default();
    let mut start_position = reader.get_ref().virtual_position();
    while reader.read_record(&mut record)? != 0 {
        let end_position = reader.get_ref().virtual_position();
        let chunk = Chunk::new(start_position, end_position);
        let name = record.reference_sequence_name();
        let start = record
            .variant_start()
            .transpose()?
            .ok_or_else(|| io::Error::new(io::ErrorKind::InvalidData, "missing position"))?;
        let end = record.variant_end(&header)?;
        indexer.add_record(name, start, end, chunk)?;
        start_position = end_position;
    }
    Ok(indexer.build())
}

pub fn fai_from_fasta(text: &[u8]) -> io::Result<fai::Index> {
    let mut ix = fasta::io::Indexer::new(text);
    let mut recs = Vec::new();
    while let Some(r) = ix.index_record().map_err(io::Error::from)? {
        recs.push(r);
    }
    Ok(fai::Index::from(recs))
}

// ------------------------------------------------------------- write protocols (careful user)

pub fn write_bai<W: Write>(w: W, idx: &bai::Index) -> io::Result<()> {
    let mut w = bai::io::Writer::new(w);
    w.write_index(idx)?;
    w.get_mut().flush()
}

pub fn write_csi<W: Write>(w: W, idx: &csi::Index) -> io::Result<()> {
    let mut w = csi::io::Writer::new(w);
    w.write_index(idx)?;
    w.get_mut().try_finish()
}

pub fn write_tabix<W: Write>(w: W, idx: &tabix::Index) -> io::Result<()> {
    let mut w = tabix::io::Writer::new(w);
    w.write_index(idx)?;
    w.try_finish()
}

pub fn write_gzi<W: Write>(w: W, idx: &bgzf::gzi::Index) -> io::Result<()> {
    let mut w = bgzf::gzi::io::Writer::new(w);
    w.write_index(idx)?;
    w.get_mut().flush()
}

pub fn write_fai<W: Write>(w: W, idx: &fai::Index) -> io::Result<()> {
    let mut w = fai::io::Writer::new(w);
    w.write_index(idx)?;
    w.get_mut().flush()
}

// ------------------------------------------------------------- read protocols

pub fn read_bai<R: Read>(r: R, items: &mut Vec<String>) -> io::Result<()> {
    let idx = bai::io::Reader::new(r).read_index()?;
    items.push(format!("X|{idx:?}"));
    Ok(())
}

pub fn read_csi<R: Read>(r: R, items: &mut Vec<String>) -> io::Result<()> {
    let idx = csi::io::Reader::new(r).read_index()?;
    items.push(format!("X|{idx:?}"));
    Ok(())
}

pub fn read_tabix<R: Read>(r: R, items: &mut Vec<String>) -> io::Result<()> {
    let idx = tabix::io::Reader::new(r).read_index()?;
    items.push(format!("X|{idx:?}"));
    Ok(())
}

pub fn read_gzi<R: Read>(r: R, items: &mut Vec<String>) -> io::Result<()> {
    let idx = bgzf::gzi::io::Reader::new(r).read_index()?;
    items.push(format!("X|{idx:?}"));
    Ok(())
}

pub fn read_fai<R: io::BufRead>(r: R, items: &mut Vec<String>) -> io::Result<()> {
    let idx = fai::io::Reader::new(r).read_index()?;
    // text index: one item per record so that the prefix oracle applies
    for rec in idx.as_ref() {
        items.push(format!("R|{rec:?}"));
    }
    Ok(())
}

// ------------------------------------------------------------- CRAI

use noodles_cram::{self as cram, crai};

/// `cram::fs::index` takes a path; the file lives in a per-process scratch directory for the
/// duration of the call.
pub fn crai_from_cram(cram_bytes: &[u8]) -> io::Result<crai::Index> {
    let dir = std::env::temp_dir().join(format!("nsim-crai-{}", std::process::id()));
    std::fs::create_dir_all(&dir)?;
    let path = dir.join("x.cram");
    std::fs::write(&path, cram_bytes)?;
    let r = cram::fs::index(&path);
    let _ = std::fs::remove_file(&path);
    let _ = std::fs::remove_dir(&dir);
    r
}

pub fn write_crai<W: Write>(w: W, idx: &crai::Index) -> io::Result<()> {
    let mut w = crai::io::Writer::new(w);
    w.write_index(idx)?;
    w.finish().map(|_| ())
}

pub fn read_crai<R: Read>(r: R, items: &mut Vec<String>) -> io::Result<()> {
    let idx = crai::io::Reader::new(r).read_index()?;
    for rec in &idx {
        items.push(format!("R|{rec:?}"));
    }
    Ok(())
}
