//! The seams the simulator owns: byte sources, sinks, (later) async I/O.
pub mod aio;
pub mod read;
pub mod write;
