//! One module per claimed property.

pub mod c01;
pub mod c02;

use crate::kernel::{Check, RunCtx, Stats, Tier, prng};

pub static ALL: &[&'static dyn Check] = &[&c01::C01, &c02::C02];

/// Determinism self-test: every case is planned and executed twice in this process; plans,
/// findings and the statistics (which include every fault that fired and every probe) must be
/// byte-identical. The caller runs this in several processes at different worker counts and diffs
/// the printed digests.
pub fn selftest_determinism(check: &dyn Check, seed: u64, cases: u64) -> i32 {
    let mut digest = prng::Fnv::new();
    let mut diverged = 0u64;
    let n = cases.min(check.n_cases(Tier::Quick));
    for idx in 0..n {
        let mut one = |_: u32| {
            let plan = check.plan(seed, idx, Tier::Quick);
            let mut stats = Stats::default();
            let findings = {
                let mut ctx = RunCtx::new(&mut stats);
                check.execute(&plan, &mut ctx)
            };
            let f: Vec<_> = findings
                .iter()
                .map(|f| (f.violation.signature(check.id()), f.violation.message.clone(), f.plan.to_string()))
                .collect();
            format!("{}|{}|{:?}", plan, serde_json::to_string(&stats).unwrap(), f)
        };
        let a = one(0);
        let b = one(1);
        if a != b {
            diverged += 1;
            eprintln!("DIVERGENCE in case {idx}");
        }
        digest.str(&a);
    }
    println!(
        "selftest determinism {}: cases={} diverged={} digest={:016x}",
        check.id(),
        n,
        diverged,
        digest.get()
    );
    if diverged == 0 { 0 } else { 1 }
}
