//! Alignment formats: SAM, SAM.gz, BAM, raw BAM record stream (CRAM lives in cram.rs).

use std::io::{self, BufRead, Read, Write};

use noodles_bam as bam;
use noodles_bgzf as bgzf;
use noodles_sam::{
    self as sam,
    alignment::{RecordBuf, io::Write as _},
};

use super::Source;
use crate::genr::sam::SamModel;

pub struct Parsed {
    pub header: sam::Header,
    pub records: Vec<RecordBuf>,
}

/// Parses the model text with noodles' SAM reader (fault-free, plain memory).
pub fn parse_model(m: &SamModel) -> io::Result<Parsed> {
    let text = m.text();
    let mut r = sam::io::Reader::new(text.as_bytes());
    let header = r.read_header()?;
    let records = r.record_bufs(&header).collect::<io::Result<Vec<_>>>()?;
    Ok(Parsed { header, records })
}

pub fn render_header(header: &sam::Header) -> io::Result<String> {
    let mut w = sam::io::Writer::new(Vec::new());
    w.write_header(header)?;
    Ok(String::from_utf8_lossy(w.get_ref()).into_owned())
}

pub fn render_record(header: &sam::Header, rec: &dyn sam::alignment::Record) -> io::Result<String> {
    let mut w = sam::io::Writer::new(Vec::new());
    w.write_alignment_record(header, rec)?;
    // derived accessors (as the indexers and region queries use them): must not panic
    let _ = rec.alignment_span();
    let _ = rec.alignment_end();
    let mut v = w.into_inner();
    if v.last() == Some(&b'\n') {
        v.pop();
    }
    Ok(String::from_utf8_lossy(&v).into_owned())
}

/// Expected observation items for a full read of the model.
pub fn expected_items(m: &SamModel) -> Vec<String> {
    let mut v = Vec::with_capacity(m.records.len() + 1);
    v.push(format!("H|{}", m.header));
    for r in &m.records {
        v.push(format!("R|{r}"));
    }
    v
}

// ---------------------------------------------------------------- writers (careful-user protocol)

pub fn write_sam<W: Write>(w: W, p: &Parsed) -> io::Result<W> {
    let mut w = sam::io::Writer::new(w);
    w.write_header(&p.header)?;
    for r in &p.records {
        w.write_alignment_record(&p.header, r)?;
    }
    w.finish(&p.header)?;
    Ok(w.into_inner())
}

pub fn write_samgz<W: Write>(w: W, p: &Parsed) -> io::Result<W> {
    let mut w = sam::io::Writer::new(bgzf::io::Writer::new(w));
    w.write_header(&p.header)?;
    for r in &p.records {
        w.write_alignment_record(&p.header, r)?;
    }
    w.finish(&p.header)?;
    w.into_inner().finish()
}

pub fn write_bam<W: Write>(w: W, p: &Parsed) -> io::Result<()> {
    let mut w = bam::io::Writer::new(w);
    w.write_header(&p.header)?;
    for (i, r) in p.records.iter().enumerate() {
        if let Some(bad) = rejected_record(p, i) {
            if w.write_alignment_record(&p.header, &bad).is_ok() {
                return Err(io::Error::other("nsim: the invalid record was accepted"));
            }
        }
        w.write_alignment_record(&p.header, r)?;
    }
    w.finish(&p.header)?;
    w.try_finish()
}

/// The uncompressed BAM stream (header + records) — what a BAM record reader receives.
pub fn write_bam_raw<W: Write>(w: W, p: &Parsed) -> io::Result<W> {
    let mut w = bam::io::Writer::from(w);
    w.write_header(&p.header)?;
    for (i, r) in p.records.iter().enumerate() {
        if let Some(bad) = rejected_record(p, i) {
            if w.write_alignment_record(&p.header, &bad).is_ok() {
                return Err(io::Error::other("nsim: the invalid record was accepted"));
            }
        }
        w.write_alignment_record(&p.header, r)?;
    }
    w.finish(&p.header)?;
    Ok(w.into_inner())
}

// ---------------------------------------------------------------- readers

#[derive(Clone, Copy, PartialEq, Eq, Debug)]
pub enum Mode {
    /// lazy records (`records()`), rendered through the alignment::Record trait
    Lazy,
    /// `record_bufs(&header)`
    Buf,
}

pub fn read_sam_from<R: BufRead>(src: R, mode: Mode, items: &mut Vec<String>) -> io::Result<()> {
    let mut r = sam::io::Reader::new(src);
    let header = r.read_header()?;
    items.push(format!("H|{}", render_header(&header)?));
    match mode {
        Mode::Lazy => {
            for rec in r.records() {
                let rec = rec?;
                items.push(format!("R|{}", render_record(&header, &rec)?));
            }
        }
        Mode::Buf => {
            for rec in r.record_bufs(&header) {
                let rec = rec?;
                items.push(format!("R|{}", render_record(&header, &rec)?));
            }
        }
    }
    Ok(())
}

pub fn read_sam(src: Source, mode: Mode, items: &mut Vec<String>) -> io::Result<()> {
    read_sam_from(src.into_buf(), mode, items)
}

pub fn read_samgz(src: Source, mode: Mode, items: &mut Vec<String>) -> io::Result<()> {
    read_sam_from(bgzf::io::Reader::new(src.into_read()), mode, items)
}

pub fn read_bam_from<R: Read>(
    mut r: bam::io::Reader<R>,
    mode: Mode,
    items: &mut Vec<String>,
) -> io::Result<()> {
    let header = r.read_header()?;
    items.push(format!("H|{}", render_header(&header)?));
    match mode {
        Mode::Lazy => {
            for rec in r.records() {
                let rec = rec?;
                items.push(format!("R|{}", render_record(&header, &rec)?));
            }
        }
        Mode::Buf => {
            for rec in r.record_bufs(&header) {
                let rec = rec?;
                items.push(format!("R|{}", render_record(&header, &rec)?));
            }
        }
    }
    Ok(())
}

pub fn read_bam(src: Source, mode: Mode, items: &mut Vec<String>) -> io::Result<()> {
    read_bam_from(bam::io::Reader::new(src.into_read()), mode, items)
}

pub fn read_bam_raw(src: Source, mode: Mode, items: &mut Vec<String>) -> io::Result<()> {
    read_bam_from(bam::io::Reader::from(src.into_read()), mode, items)
}

/// BAM with the virtual position recorded after the header and after every record.
pub fn read_bam_positions(src: Source, items: &mut Vec<String>) -> io::Result<()> {
    let mut r = bam::io::Reader::new(src.into_read());
    let header = r.read_header()?;
    items.push(format!("H|{}", render_header(&header)?));
    items.push(format!("P|{}", u64::from(r.get_ref().virtual_position())));
    let mut rec = bam::Record::default();
    loop {
        let n = r.read_record(&mut rec)?;
        if n == 0 {
            break;
        }
        items.push(format!("R|{}", render_record(&header, &rec)?));
        items.push(format!("P|{}", u64::from(r.get_ref().virtual_position())));
    }
    Ok(())
}

/// The format-detecting facade (`noodles_util::alignment::io::Reader`): compression method and
/// format are sniffed from the stream itself; `refs` only matters for CRAM.
pub fn read_util_alignment(src: Source, refs: Option<noodles_fasta::Repository>, items: &mut Vec<String>) -> io::Result<()> {
    let mut b = noodles_util::alignment::io::reader::Builder::default();
    if let Some(r) = refs {
        b = b.set_reference_sequence_repository(r);
    }
    let mut r = b.build_from_reader(src.into_read())?;
    let header = r.read_header()?;
    items.push(format!("H|{}", render_header(&header)?));
    for rec in r.records(&header) {
        let rec = rec?;
        items.push(format!("R|{}", render_record(&header, rec.as_ref())?));
    }
    Ok(())
}

/// The noodles-util facade writer: header, records, `finish(&header)` — the only finishing call it
/// offers.
pub fn write_util_alignment<W: Write>(w: W, p: &Parsed, format: noodles_util::alignment::io::Format, bgzf: bool) -> io::Result<()> {
    use noodles_util::alignment::io::{CompressionMethod, writer::Builder};
    let mut w = Builder::default()
        .set_format(format)
        .set_compression_method(if bgzf { Some(CompressionMethod::Bgzf) } else { None })
        .build_from_writer(w)?;
    w.write_header(&p.header)?;
    for r in &p.records {
        w.write_record(&p.header, r)?;
    }
    w.finish(&p.header)
}

/// C16 writer scenarios: before the record with this index an *invalid* record is offered to the
/// writer (quality scores shorter than the sequence: both twins must refuse it with an error and go
/// on as if nothing had happened). usize::MAX = none. Process-wide: a worker runs one case at a time.
pub static REJECTED_RECORD_AT: std::sync::atomic::AtomicUsize = std::sync::atomic::AtomicUsize::new(usize::MAX);

/// The invalid record offered at index `i`, if the scenario asks for one there.
pub fn rejected_record(p: &Parsed, i: usize) -> Option<RecordBuf> {
    if REJECTED_RECORD_AT.load(std::sync::atomic::Ordering::Relaxed) != i {
        return None;
    }
    // the first record with at least two bases, its quality scores cut to one value
    let src = p.records.iter().find(|r| r.sequence().len() >= 2)?;
    let mut r = src.clone();
    *r.quality_scores_mut() = noodles_sam::alignment::record_buf::QualityScores::from(vec![30u8]);
    Some(r)
}

/// `sam::io::writer::Builder::build_from_writer`: a `Writer<Box<dyn Write>>` over a BufWriter or a
/// BGZF writer. The only finishing call it offers is `get_mut().flush()`; the EOF block of the BGZF
/// form is written when the writer is dropped.
pub fn write_sam_builder<W: Write>(w: W, p: &Parsed, bgzf: bool) -> io::Result<()> {
    use noodles_sam::io::{CompressionMethod, writer::Builder};
    let mut w = Builder::default()
        .set_compression_method(if bgzf { CompressionMethod::Bgzf } else { CompressionMethod::None })
        .build_from_writer(w);
    w.write_header(&p.header)?;
    for r in &p.records {
        w.write_alignment_record(&p.header, r)?;
    }
    w.finish(&p.header)?;
    w.get_mut().flush()?;
    super::kinds::call_before_drop();
    Ok(())
}
