//! Simulated byte sink: `Write` whose behaviour — short writes, `Interrupted`, a failing call,
//! `Ok(0)`, a byte budget (disk full) — is decided by a plan. The state is shared so the harness
//! can inspect what the "disk" holds after the writer was finished, dropped or crashed.

use std::io::{self, Write};
use std::sync::{Arc, Mutex};

use serde::{Deserialize, Serialize};

use crate::kernel::Rng;

#[derive(Clone, Debug, Serialize, Deserialize, PartialEq)]
pub enum Short {
    /// accept everything
    Full,
    /// accept one byte per call
    One,
    /// accept uniformly 1..=max
    Random { max: usize, seed: u64 },
    /// mostly full; sometimes n-1, n/2 or 1
    Sparse { seed: u64, one_in: u64 },
}

#[derive(Clone, Debug, Serialize, Deserialize, PartialEq)]
pub enum WEintr {
    None,
    Random { seed: u64, one_in: u64 },
    AtCalls(Vec<u64>),
}

#[derive(Clone, Copy, Debug, Serialize, Deserialize, PartialEq, Eq)]
pub enum Kind {
    Other,
    BrokenPipe,
    StorageFull,
    PermissionDenied,
    TimedOut,
    WriteZero,
}

impl Kind {
    pub const ALL: [Kind; 5] = [
        Kind::Other,
        Kind::BrokenPipe,
        Kind::StorageFull,
        Kind::PermissionDenied,
        Kind::TimedOut,
    ];
    pub fn to_io(self) -> io::ErrorKind {
        match self {
            Kind::Other => io::ErrorKind::Other,
            Kind::BrokenPipe => io::ErrorKind::BrokenPipe,
            Kind::StorageFull => io::ErrorKind::StorageFull,
            Kind::PermissionDenied => io::ErrorKind::PermissionDenied,
            Kind::TimedOut => io::ErrorKind::TimedOut,
            Kind::WriteZero => io::ErrorKind::WriteZero,
        }
    }
}

#[derive(Clone, Debug, Serialize, Deserialize, PartialEq)]
pub enum Fault {
    None,
    /// the k-th sink call (0-based; write and flush calls both count) fails
    FailCall { k: u64, kind: Kind, sticky: bool },
    /// the k-th `write` call with a non-empty buffer returns Ok(0)
    ZeroAt { k: u64 },
    /// the sink accepts this many bytes in total, then a partial write, then StorageFull forever
    Budget { bytes: usize },
}

#[derive(Clone, Debug, Serialize, Deserialize, PartialEq)]
pub struct WritePlan {
    pub short: Short,
    pub eintr: WEintr,
    pub fault: Fault,
}

impl WritePlan {
    pub fn plain() -> Self {
        Self {
            short: Short::Full,
            eintr: WEintr::None,
            fault: Fault::None,
        }
    }
    pub fn with_fault(fault: Fault) -> Self {
        Self {
            fault,
            ..Self::plain()
        }
    }
}

pub const WERR_MARKER: &str = "nsim: injected sink error";

#[derive(Default, Debug, Clone)]
pub struct WriteCounters {
    /// write + flush calls
    pub calls: u64,
    pub writes: u64,
    pub flushes: u64,
    pub short: u64,
    pub eintr: u64,
    pub zero: u64,
    /// hard failures returned
    pub failed: u64,
    /// call index of the first hard failure
    pub first_fail_call: Option<u64>,
}

pub struct SinkState {
    pub data: Vec<u8>,
    plan: WritePlan,
    rng: Rng,
    erng: Rng,
    consecutive_eintr: u32,
    dead: Option<Kind>,
    pub counters: WriteCounters,
    /// optional scheduling-point callback (thread-sim)
    pub on_call: Option<fn(&'static str)>,
}

#[derive(Clone)]
pub struct SimWrite(pub Arc<Mutex<SinkState>>);

impl SimWrite {
    pub fn new(plan: WritePlan) -> Self {
        let seed = match &plan.short {
            Short::Random { seed, .. } | Short::Sparse { seed, .. } => *seed,
            _ => 0,
        };
        let eseed = match &plan.eintr {
            WEintr::Random { seed, .. } => *seed,
            _ => 0,
        };
        SimWrite(Arc::new(Mutex::new(SinkState {
            data: Vec::new(),
            plan,
            rng: Rng::new(seed),
            erng: Rng::new(eseed),
            consecutive_eintr: 0,
            dead: None,
            counters: WriteCounters::default(),
            on_call: None,
        })))
    }

    pub fn with_yield(self, f: fn(&'static str)) -> Self {
        self.0.lock().unwrap().on_call = Some(f);
        self
    }

    pub fn data(&self) -> Vec<u8> {
        self.0.lock().unwrap().data.clone()
    }

    pub fn counters(&self) -> WriteCounters {
        self.0.lock().unwrap().counters.clone()
    }

    pub fn fault_fired(&self) -> bool {
        let s = self.0.lock().unwrap();
        s.counters.failed > 0 || s.counters.zero > 0
    }
}

impl SinkState {
    fn eintr(&mut self) -> bool {
        let call = self.counters.calls;
        let fire = match &self.plan.eintr {
            WEintr::None => false,
            WEintr::Random { one_in, .. } => {
                self.erng.below(*one_in) == 0 && self.consecutive_eintr < 3
            }
            WEintr::AtCalls(v) => v.contains(&call),
        };
        if fire {
            self.consecutive_eintr += 1;
            self.counters.eintr += 1;
        } else {
            self.consecutive_eintr = 0;
        }
        fire
    }

    fn hard_fault(&mut self, is_write: bool, nonempty: bool) -> Option<io::Error> {
        let call = self.counters.calls;
        if let Some(kind) = self.dead {
            self.counters.failed += 1;
            return Some(io::Error::new(kind.to_io(), WERR_MARKER));
        }
        match self.plan.fault.clone() {
            Fault::FailCall { k, kind, sticky } if k == call => {
                if sticky {
                    self.dead = Some(kind);
                }
                self.counters.failed += 1;
                self.counters.first_fail_call.get_or_insert(call);
                Some(io::Error::new(kind.to_io(), WERR_MARKER))
            }
            Fault::Budget { bytes } if is_write && nonempty && self.data.len() >= bytes => {
                self.dead = Some(Kind::StorageFull);
                self.counters.failed += 1;
                self.counters.first_fail_call.get_or_insert(call);
                Some(io::Error::new(io::ErrorKind::StorageFull, WERR_MARKER))
            }
            _ => None,
        }
    }
}

impl Write for SimWrite {
    fn write(&mut self, buf: &[u8]) -> io::Result<usize> {
        let cb = self.0.lock().unwrap().on_call;
        if let Some(f) = cb {
            f("sink.write");
        }
        let mut s = self.0.lock().unwrap();
        if s.eintr() {
            s.counters.calls += 1;
            return Err(io::Error::new(io::ErrorKind::Interrupted, "nsim: EINTR"));
        }
        if let Some(e) = s.hard_fault(true, !buf.is_empty()) {
            s.counters.calls += 1;
            s.counters.writes += 1;
            return Err(e);
        }
        let widx = s.counters.writes;
        s.counters.calls += 1;
        s.counters.writes += 1;
        if buf.is_empty() {
            return Ok(0);
        }
        if let Fault::ZeroAt { k } = s.plan.fault {
            if k == widx {
                s.counters.zero += 1;
                let call = s.counters.calls - 1;
                s.counters.first_fail_call.get_or_insert(call);
                return Ok(0);
            }
        }
        let mut n = buf.len();
        if n > 1 {
            n = match s.plan.short.clone() {
                Short::Full => n,
                Short::One => 1,
                Short::Random { max, .. } => {
                    let m = max.max(1).min(n);
                    1 + s.rng.usize_below(m)
                }
                Short::Sparse { one_in, .. } => {
                    if s.rng.below(one_in) == 0 {
                        match s.rng.below(3) {
                            0 => n - 1,
                            1 => (n / 2).max(1),
                            _ => 1,
                        }
                    } else {
                        n
                    }
                }
            };
        }
        if let Fault::Budget { bytes } = s.plan.fault {
            let room = bytes.saturating_sub(s.data.len());
            n = n.min(room);
        }
        if n < buf.len() {
            s.counters.short += 1;
        }
        s.data.extend_from_slice(&buf[..n]);
        Ok(n)
    }

    fn flush(&mut self) -> io::Result<()> {
        let cb = self.0.lock().unwrap().on_call;
        if let Some(f) = cb {
            f("sink.flush");
        }
        // Interrupted is injected on `write` only: nothing in std retries an interrupted flush,
        // and flush of a real file/pipe/socket is not an interruptible system call.
        let mut s = self.0.lock().unwrap();
        if let Some(e) = s.hard_fault(false, false) {
            s.counters.calls += 1;
            s.counters.flushes += 1;
            return Err(e);
        }
        s.counters.calls += 1;
        s.counters.flushes += 1;
        Ok(())
    }
}
