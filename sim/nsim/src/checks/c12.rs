//! C12 — decoded content does not depend on how the underlying stream chunks its reads.
//! Every reader kind reads the same valid file twice: through plain memory (O0) and through the
//! delivery adversary (O1: short reads, 1-byte reads, Interrupted, tiny BufRead windows).

use serde::{Deserialize, Serialize};
use serde_json::{Value, json};

use crate::{
    fmt::{
        Delivery, End, Obs, Source, Wrap, clip, first_diff,
        kinds::{self, FileSpec, Kind, Made},
    },
    kernel::{Check, Finding, Fnv, Rng, RunCtx, Tier, Violation, prng},
    seams::read::{Chunking, Eintr, ReadPlan},
};

pub struct C12;

#[derive(Clone, Debug, Serialize, Deserialize, PartialEq)]
pub enum Mode {
    /// complete one-fault enumeration: every single split point, all-1-byte delivery, and one
    /// Interrupted before every read call index
    Exhaustive { wrap: Wrap },
    /// explicit deliveries (an `Aligned` chunking with no boundaries takes the file's structure)
    Sampled { deliveries: Vec<Delivery> },
}

#[derive(Clone, Debug, Serialize, Deserialize)]
pub struct Plan {
    pub kind: String,
    pub file: FileSpec,
    /// reading-protocol variants (all if empty)
    pub variants: Vec<u8>,
    pub mode: Mode,
}

pub const CAPS: [usize; 9] = [1, 2, 3, 7, 16, 64, 4096, 8192, 65536];

pub fn gen_wrap(rng: &mut Rng) -> Wrap {
    match rng.below(5) {
        0 | 1 => Wrap::Direct,
        2 | 3 => Wrap::StdBuf {
            cap: *rng.pick(&CAPS),
        },
        _ => Wrap::SimBuf {
            cap: *rng.pick(&CAPS),
        },
    }
}

pub fn gen_delivery(rng: &mut Rng) -> Delivery {
    let chunking = match rng.below(10) {
        0 => Chunking::One,
        1 | 2 => Chunking::Random {
            max: 1 + rng.usize_below(8),
            seed: rng.next_u64(),
        },
        3 => Chunking::Random {
            max: 1 + rng.usize_below(300),
            seed: rng.next_u64(),
        },
        4 => Chunking::Random {
            max: 1 + rng.usize_below(70_000),
            seed: rng.next_u64(),
        },
        5 => Chunking::Sparse {
            seed: rng.next_u64(),
            one_in: 1 + rng.below(8),
        },
        6 | 7 => Chunking::Aligned {
            boundaries: Vec::new(),
            delta: rng.irange(-3, 3),
        },
        8 => Chunking::Aligned {
            boundaries: Vec::new(),
            delta: *rng.pick(&[-18i64, -17, -8, -4, 4, 12, 16, 17, 18, 19]),
        },
        _ => Chunking::Full,
    };
    let eintr = match rng.below(6) {
        0 => Eintr::Random {
            seed: rng.next_u64(),
            one_in: 2 + rng.below(4),
        },
        1 => Eintr::Random {
            seed: rng.next_u64(),
            one_in: 10 + rng.below(100),
        },
        2 => Eintr::AtCalls(vec![0]),
        _ => Eintr::None,
    };
    let mut d = Delivery {
        read: ReadPlan {
            chunking,
            eintr,
            cut: None,
            ioerr_at: None,
        },
        wrap: gen_wrap(rng),
    };
    if !d.read.is_adversarial() && d.wrap == Wrap::Direct {
        d.wrap = Wrap::SimBuf { cap: 3 };
    }
    d
}

fn resolve(d: &Delivery, made: &Made) -> Delivery {
    let mut d = d.clone();
    if let Chunking::Aligned { boundaries, .. } = &mut d.read.chunking {
        if boundaries.is_empty() {
            *boundaries = made.boundaries.clone();
        }
    }
    d
}

fn same(a: &Obs, b: &Obs) -> bool {
    a.items == b.items && a.bytes == b.bytes && end_class(&a.end) == end_class(&b.end)
}

fn end_class(e: &End) -> String {
    match e {
        End::Eof => "eof".into(),
        End::Err { kind, .. } => format!("err:{kind}"),
        End::Panic { witness, .. } => format!("panic:{witness}"),
    }
}

struct Diff {
    class: &'static str,
    detail: String,
    message: String,
}

fn diff(o0: &Obs, o1: &Obs) -> Option<Diff> {
    if same(o0, o1) {
        return None;
    }
    if let End::Panic { witness, msg } = &o1.end {
        return Some(Diff {
            class: "panic",
            detail: witness.clone(),
            message: format!("panic under chunked delivery: {msg}"),
        });
    }
    if let Some(i) = first_diff(&o0.items, &o1.items) {
        let n = o0.items.len().min(o1.items.len());
        if i < n {
            return Some(Diff {
                class: "different-content",
                detail: String::new(),
                message: format!(
                    "item {i} differs: plain {} / chunked {}",
                    clip(&o0.items[i]),
                    clip(&o1.items[i])
                ),
            });
        }
    }
    if o0.bytes != o1.bytes {
        let common = o0.bytes.iter().zip(&o1.bytes).take_while(|(a, b)| a == b).count();
        if common < o0.bytes.len().min(o1.bytes.len()) {
            return Some(Diff {
                class: "different-content",
                detail: String::new(),
                message: format!("byte {common} differs between plain and chunked delivery"),
            });
        }
    }
    // same common prefix; different length and/or end
    let (c, m) = match (&o0.end, &o1.end) {
        (End::Eof, End::Err { kind, msg }) => (
            "spurious-error",
            format!(
                "plain read: {} items then EOF; chunked read: {} items then Err({kind}: {msg})",
                o0.items.len(),
                o1.items.len()
            ),
        ),
        (End::Eof, End::Eof) => (
            "short-read-taken-for-eof",
            format!(
                "plain read: {} items / {} bytes; chunked read stopped early with a clean EOF after {} items / {} bytes",
                o0.items.len(),
                o0.bytes.len(),
                o1.items.len(),
                o1.bytes.len()
            ),
        ),
        (End::Err { kind, .. }, End::Eof) => (
            "missing-error",
            format!("plain read ends in Err({kind}); chunked read ends in a clean EOF"),
        ),
        (a, b) => (
            "different-error",
            format!("plain read ends {:?} after {} items; chunked read ends {:?} after {} items", a, o0.items.len(), b, o1.items.len()),
        ),
    };
    let detail = match &o1.end {
        End::Err { kind, .. } => kind.clone(),
        _ => String::new(),
    };
    Some(Diff {
        class: c,
        detail,
        message: m,
    })
}

impl C12 {
    /// Executes one delivery; on a difference returns the violation and the narrowed plan.
    #[allow(clippy::too_many_arguments)]
    fn one(
        &self,
        p: &Plan,
        made: &Made,
        variant: u8,
        o0: &Obs,
        d: &Delivery,
        ctx: &mut RunCtx,
        file_hash: u64,
    ) -> Option<Finding> {
        let d = resolve(d, made);
        let (src, counters) = d.open(made.bytes.clone());
        let o1 = kinds::read(p.file.kind, variant, src);
        let c = counters.lock().unwrap().clone();
        let s = &mut *ctx.stats;
        s.evaluations += 1;
        s.steps += c.calls;
        s.fault("R_SHORT", c.short);
        s.fault("R_EINTR", c.eintr);
        if let Wrap::StdBuf { .. } | Wrap::SimBuf { .. } = d.wrap {
            s.fault("R_BUFCAP", 1);
        }
        if c.short > 0 || c.eintr > 0 {
            let mut h = Fnv::new();
            h.u64(file_hash).u64(variant as u64);
            h.str(&serde_json::to_string(&d.wrap).unwrap());
            for o in &c.split_offsets {
                h.u64(*o as u64);
            }
            for o in &c.eintr_calls {
                h.u64(*o | 1 << 63);
            }
            s.nontrivial(h.get());
        }
        // probes: where did a read boundary fall?
        if made.spec.kind.is_bgzf_container() {
            if let Some(f) = &made.flat {
                let mut in_header = 0;
                for &o in &c.split_offsets {
                    let i = f.members.partition_point(|m| (m.cpos as usize) < o);
                    if i > 0 {
                        let st = f.members[i - 1].cpos as usize;
                        if o - st < 18 {
                            in_header += 1;
                        }
                    }
                }
                s.probe("read_boundary_inside_bgzf_header", in_header);
            }
        }
        s.probe_if("eintr_on_first_call", c.eintr_calls.first() == Some(&0));
        s.probe_if("window_of_one_byte", matches!(d.wrap, Wrap::StdBuf { cap: 1 } | Wrap::SimBuf { cap: 1 }));
        let df = diff(o0, &o1)?;
        // which adversary feature is responsible? (stable witness for the signature)
        let cause = if d.read.eintr != Eintr::None {
            let mut d2 = d.clone();
            d2.read.eintr = Eintr::None;
            let (src, _) = d2.open(made.bytes.clone());
            let o2 = kinds::read(p.file.kind, variant, src);
            // EINTR is the cause unless the very same difference persists without it
            match diff(o0, &o2) {
                Some(x) if x.class == df.class && x.detail == df.detail => "short-reads",
                _ => "eintr",
            }
        } else {
            "short-reads"
        };
        let witness = if df.detail.is_empty() {
            cause.to_string()
        } else {
            format!("{cause}:{}", df.detail)
        };
        let violation = Violation::new(
            &format!("{}:{}", p.file.kind.name(), kinds::variant_name(p.file.kind, variant)),
            df.class,
            &witness,
            format!("{} [file {} bytes, wrap {:?}]", df.message, made.bytes.len(), d.wrap),
        );
        // reify the delivery (explicit split offsets and EINTR call indices) if that reproduces
        let reified = Delivery {
            read: ReadPlan {
                chunking: Chunking::SplitAt({
                    let mut v = c.split_offsets.clone();
                    v.sort();
                    v.dedup();
                    v
                }),
                eintr: if c.eintr_calls.is_empty() { Eintr::None } else { Eintr::AtCalls(c.eintr_calls.clone()) },
                cut: None,
                ioerr_at: None,
            },
            wrap: d.wrap.clone(),
        };
        let use_reified = c.split_offsets.len() <= 20_000 && {
            let (src, _) = reified.open(made.bytes.clone());
            let o3 = kinds::read(p.file.kind, variant, src);
            diff(o0, &o3).map(|x| x.class) == Some(df.class)
        };
        let narrowed = Plan {
            kind: p.kind.clone(),
            file: p.file.clone(),
            variants: vec![variant],
            mode: Mode::Sampled {
                deliveries: vec![if use_reified { reified } else { d.clone() }],
            },
        };
        Some(Finding {
            violation,
            plan: serde_json::to_value(narrowed).unwrap(),
        })
    }
}

impl Check for C12 {
    fn id(&self) -> &'static str {
        "C12"
    }
    fn level(&self) -> &'static str {
        "exploration"
    }
    fn n_cases(&self, tier: Tier) -> u64 {
        let k = kinds::C12_KINDS.len() as u64;
        match tier {
            Tier::Quick => 120 * k,
            Tier::Thorough => 4000 * k,
        }
    }
    fn plan(&self, master: u64, idx: u64, _tier: Tier) -> Value {
        let mut rng = Rng::new(prng::derive(master, "C12", idx));
        let k = kinds::C12_KINDS.len() as u64;
        let kind = kinds::C12_KINDS[(idx % k) as usize];
        let round = idx / k;
        let (size_class, mode) = match round % 8 {
            0 => (0, Mode::Exhaustive { wrap: Wrap::Direct }),
            1 => (0, Mode::Exhaustive { wrap: gen_wrap(&mut rng) }),
            2 => (1, Mode::Exhaustive { wrap: gen_wrap(&mut rng) }),
            r => {
                let sc = match r {
                    3 | 4 => 1,
                    5 | 6 => 2,
                    _ => 3,
                };
                let n = if sc == 3 { 6 } else { 16 };
                (sc, Mode::Sampled {
                    deliveries: (0..n).map(|_| gen_delivery(&mut rng)).collect(),
                })
            }
        };
        serde_json::to_value(Plan {
            kind: kind.name().into(),
            file: FileSpec {
                kind,
                size_class,
                seed: rng.next_u64(),
            },
            variants: Vec::new(),
            mode,
        })
        .unwrap()
    }
    fn execute(&self, plan: &Value, ctx: &mut RunCtx) -> Vec<Finding> {
        let p: Plan = serde_json::from_value(plan.clone()).expect("bad C12 plan");
        let made = match kinds::make(&p.file) {
            Ok(m) => m,
            Err(_) => {
                ctx.stats.probe("workload_unbuildable", 1);
                return Vec::new();
            }
        };
        let file_hash = prng::hash_bytes(&made.bytes);
        let len = made.bytes.len();
        let variants: Vec<u8> = if p.variants.is_empty() {
            (0..p.file.kind.variants()).collect()
        } else {
            p.variants.clone()
        };
        let mut findings: Vec<Finding> = Vec::new();
        let mut seen: std::collections::BTreeSet<String> = Default::default();
        let mut push = |f: Option<Finding>, findings: &mut Vec<Finding>| {
            if let Some(f) = f {
                if seen.insert(f.violation.signature("C12")) {
                    findings.push(f);
                }
            }
        };
        ctx.stats.kind(p.file.kind.name());
        // CRAM files whose decoding costs tens of ms (bzip2 / lzma / fqzcomp block codecs, many
        // records) get the boundary-focused split set instead of every split point: decided from the
        // plan, never from a clock
        let slow_cram = matches!(&made.model, kinds::Model::Cram { opts, model, .. } if matches!(opts.encoder, 3 | 4 | 9) || model.records.len() > 40);
        for &variant in &variants {
            let o0 = kinds::read(p.file.kind, variant, Source::plain(made.bytes.clone()));
            if let End::Panic { msg, .. } = &o0.end {
                let _ = msg;
                ctx.stats.probe("workload_unbuildable", 1);
                continue;
            }
            match &p.mode {
                Mode::Exhaustive { wrap } if len <= 1500 && !slow_cram => {
                    // every single split point
                    for k in 1..len {
                        let d = Delivery {
                            read: ReadPlan {
                                chunking: Chunking::SplitAt(vec![k]),
                                eintr: Eintr::None,
                                cut: None,
                                ioerr_at: None,
                            },
                            wrap: wrap.clone(),
                        };
                        let f = self.one(&p, &made, variant, &o0, &d, ctx, file_hash);
                        push(f, &mut findings);
                    }
                    // one byte at a time
                    let d1 = Delivery {
                        read: ReadPlan {
                            chunking: Chunking::One,
                            eintr: Eintr::None,
                            cut: None,
                            ioerr_at: None,
                        },
                        wrap: wrap.clone(),
                    };
                    // count the read calls of the plain-chunked run to place one EINTR before each
                    let (src, counters) = Delivery { read: ReadPlan::plain(), wrap: wrap.clone() }.open(made.bytes.clone());
                    let _ = kinds::read(p.file.kind, variant, src);
                    let calls = counters.lock().unwrap().calls;
                    let f = self.one(&p, &made, variant, &o0, &d1, ctx, file_hash);
                    push(f, &mut findings);
                    for i in 0..calls.min(400) {
                        let d = Delivery {
                            read: ReadPlan {
                                chunking: Chunking::Full,
                                eintr: Eintr::AtCalls(vec![i]),
                                cut: None,
                                ioerr_at: None,
                            },
                            wrap: wrap.clone(),
                        };
                        let f = self.one(&p, &made, variant, &o0, &d, ctx, file_hash);
                        push(f, &mut findings);
                    }
                    ctx.stats.exhaustive.insert(format!(
                        "all {} single split points + 1-byte delivery + EINTR before each of {} read calls: {} file {:016x} variant {} wrap {:?}",
                        len.saturating_sub(1),
                        calls.min(400),
                        p.file.kind.name(),
                        file_hash,
                        kinds::variant_name(p.file.kind, variant),
                        wrap
                    ));
                    ctx.stats.probe("files_enumerated_exhaustively", 1);
                }
                Mode::Exhaustive { wrap } => {
                    // file larger than the exhaustive bound: boundary-focused single splits
                    let mut ks: Vec<usize> = Vec::new();
                    for &b in made.boundaries.iter().take(40) {
                        for dlt in -2i64..=19 {
                            let k = b as i64 + dlt;
                            if k > 0 && (k as usize) < len {
                                ks.push(k as usize);
                            }
                        }
                    }
                    ks.sort();
                    ks.dedup();
                    for k in ks {
                        let d = Delivery {
                            read: ReadPlan {
                                chunking: Chunking::SplitAt(vec![k]),
                                eintr: Eintr::None,
                                cut: None,
                                ioerr_at: None,
                            },
                            wrap: wrap.clone(),
                        };
                        let f = self.one(&p, &made, variant, &o0, &d, ctx, file_hash);
                        push(f, &mut findings);
                    }
                }
                Mode::Sampled { deliveries } => {
                    for d in deliveries {
                        let f = self.one(&p, &made, variant, &o0, d, ctx, file_hash);
                        push(f, &mut findings);
                    }
                }
            }
        }
        if ctx.stats.want_sample() {
            if let Mode::Sampled { deliveries } = &p.mode {
                ctx.stats.sample(|| json!({"file": p.file, "file_len": len, "variants": variants, "deliveries": deliveries.iter().take(3).collect::<Vec<_>>() }));
            }
        }
        findings
    }
    fn shrink(&self, plan: &Value) -> Vec<Value> {
        let Ok(p) = serde_json::from_value::<Plan>(plan.clone()) else {
            return Vec::new();
        };
        let mut out = Vec::new();
        let Mode::Sampled { deliveries } = &p.mode else {
            return out;
        };
        if deliveries.len() != 1 {
            return out;
        }
        let d = &deliveries[0];
        let mut push = |d2: Delivery, file: Option<FileSpec>| {
            let mut q = p.clone();
            if let Some(f) = file {
                q.file = f;
            }
            q.mode = Mode::Sampled { deliveries: vec![d2] };
            out.push(serde_json::to_value(q).unwrap());
        };
        // remove EINTR entirely / one at a time
        if let Eintr::AtCalls(v) = &d.read.eintr {
            let mut d2 = d.clone();
            d2.read.eintr = Eintr::None;
            push(d2, None);
            if v.len() > 1 {
                let h = v.len() / 2;
                for part in [&v[..h], &v[h..]] {
                    let mut d2 = d.clone();
                    d2.read.eintr = Eintr::AtCalls(part.to_vec());
                    push(d2, None);
                }
            }
        } else if d.read.eintr != Eintr::None {
            let mut d2 = d.clone();
            d2.read.eintr = Eintr::None;
            push(d2, None);
        }
        // ddmin over split offsets
        if let Chunking::SplitAt(v) = &d.read.chunking {
            if !v.is_empty() {
                let mut d2 = d.clone();
                d2.read.chunking = Chunking::Full;
                push(d2, None);
            }
            let mut chunk = v.len() / 2;
            let mut pushed = 0usize;
            while chunk >= 1 {
                let mut i = 0;
                while i < v.len() {
                    let mut w = v.clone();
                    w.drain(i..(i + chunk).min(v.len()));
                    let mut d2 = d.clone();
                    d2.read.chunking = Chunking::SplitAt(w);
                    push(d2, None);
                    pushed += 1;
                    i += chunk;
                    if pushed > 60 {
                        break;
                    }
                }
                if chunk == 1 || pushed > 60 {
                    break;
                }
                chunk /= 2;
            }
        }
        if d.wrap != Wrap::Direct {
            let mut d2 = d.clone();
            d2.wrap = Wrap::Direct;
            push(d2, None);
        }
        out
    }
    fn rule(&self) -> String {
        "one evaluation = one (file, reading-protocol variant, delivery): the same valid generated file is read through plain memory (O0) and through the delivery adversary (O1): SimRead with short reads (1-byte, random small/large, sparse, aligned to / straddling structural boundaries by a delta), Interrupted placements, directly or under std::io::BufReader / SimBufRead of capacity 1..65536. Oracle: O1 == O0 (items, bytes, virtual positions, error kind and index). Files <= 1500 bytes are enumerated completely for the one-fault space: every single split point, all-1-byte delivery, one Interrupted before each read call (listed under exhaustive_subspaces). distinct_nontrivial = distinct (file hash, variant, wrap, observed split offsets, observed EINTR call indices) among runs where at least one short read or Interrupted actually fired".into()
    }
    fn assumptions(&self) -> Vec<String> {
        vec![
            "Interrupted returned by a byte-level Read/BufRead call of a reader under test is retried by the harness as std consumers do; Interrupted surfacing from a record-level API is a difference".into(),
            "error identity is compared by io::ErrorKind and position in the result sequence, not by message".into(),
        ]
    }
    fn components(&self) -> Value {
        json!({"real": ["all noodles readers of the listed kinds; std::io::BufReader"], "stub": ["byte source (SimRead, SimBufRead)"]})
    }
    fn expected_probes(&self) -> Vec<&'static str> {
        vec![
            "read_boundary_inside_bgzf_header",
            "eintr_on_first_call",
            "window_of_one_byte",
            "files_enumerated_exhaustively",
        ]
    }
}

#[allow(dead_code)]
fn _kind_unused(_: Kind) {}
