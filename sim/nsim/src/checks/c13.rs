//! C13 — a truncated file yields a prefix of the original records, then EOF or an error.
//! One case = one generated file; every cut offset (small files) or every offset near a structural
//! boundary plus a seeded sample (large files) is a sub-case: the writer process "crashed" and the
//! disk kept only bytes [0, k).

use serde::{Deserialize, Serialize};
use serde_json::{Value, json};

use crate::{
    fmt::{
        Delivery, End, Wrap, clip,
        kinds::{self, FileSpec, Kind, Made},
    },
    kernel::{Check, Finding, Fnv, Rng, RunCtx, Tier, Violation, prng},
    seams::read::{Chunking, ReadPlan},
};

pub struct C13;

#[derive(Clone, Debug, Serialize, Deserialize, PartialEq)]
pub enum Cuts {
    /// every offset 0..=len
    All,
    /// every offset within `radius` of a structural boundary + `sample` seeded others
    Near { radius: usize, sample: usize, seed: u64 },
    List(Vec<usize>),
}

#[derive(Clone, Debug, Serialize, Deserialize)]
pub struct Plan {
    pub kind: String,
    pub file: FileSpec,
    /// reading-protocol variants to use (all if empty)
    pub variants: Vec<u8>,
    pub cuts: Cuts,
    /// 0: the surviving bytes are delivered in full reads; otherwise the seed of a short-read pattern
    /// (a truncated file read through a pipe / small buffer): the verdict must be the same
    #[serde(default)]
    pub delivery: u64,
    /// which reader family reads the truncated file: 0 = the sync readers and their async twins
    /// (generated plans), 1 = sync only, 2 = async only (narrowed plans)
    #[serde(default)]
    pub family: u8,
}

fn delivery_chunking(seed: u64, len: usize) -> Chunking {
    if seed == 0 {
        return Chunking::Full;
    }
    let mut r = Rng::new(seed);
    if len <= 6000 {
        match r.below(3) {
            0 => Chunking::One,
            1 => Chunking::Random { max: 2 + r.usize_below(7), seed: r.next_u64() },
            _ => Chunking::Random { max: 20 + r.usize_below(300), seed: r.next_u64() },
        }
    } else {
        Chunking::Random { max: 500 + r.usize_below(5000), seed: r.next_u64() }
    }
}

pub fn cut_class(made: &Made, k: usize) -> &'static str {
    let len = made.bytes.len();
    if k >= len {
        return "at-end";
    }
    if made.spec.kind.is_bgzf_container() {
        if let Some(f) = &made.flat {
            for m in &f.members {
                let s = m.cpos as usize;
                let e = s + m.csize as usize;
                if k == s {
                    return "at-member-boundary";
                }
                if k > s && k < e {
                    return if k - s < 18 { "in-member-header" } else { "in-member-body" };
                }
            }
        }
        return "in-member-body";
    }
    if made.boundaries.binary_search(&k).is_ok() {
        "at-record-boundary"
    } else {
        "inside-record"
    }
}

/// Judges one truncated read against the model. Returns (class, witness-detail, message).
pub fn judge(
    made: &Made,
    k: usize,
    obs: &crate::fmt::Obs,
) -> Option<(String, String)> {
    let len = made.bytes.len();
    let kind = made.spec.kind;
    if let End::Panic { witness, msg } = &obs.end {
        return Some(("panic".into(), format!("{witness}\u{1}panic at {msg}")));
    }
    // byte-stream kinds
    if kind == Kind::Bgzf {
        let want = &made.flat.as_ref().expect("bgzf flat").data;
        if obs.bytes.len() > want.len() || obs.bytes[..] != want[..obs.bytes.len()] {
            let at = obs.bytes.iter().zip(want.iter()).position(|(a, b)| a != b).unwrap_or(want.len());
            return Some((
                "altered-bytes".into(),
                format!("\u{1}delivered {} bytes; differs from the written stream at offset {at}", obs.bytes.len()),
            ));
        }
        if k >= len && (obs.end != End::Eof || obs.bytes.len() != want.len()) {
            return Some((
                "fault-free-mismatch".into(),
                format!("\u{1}complete file read back as {} of {} bytes, end {:?}", obs.bytes.len(), want.len(), obs.end),
            ));
        }
        return None;
    }
    let got = kinds::content_items(&obs.items);
    let want = &made.expected;
    if kinds::index_kind(kind) {
        // binary index: Err, or an index equal to the original
        // BAI: the trailing n_no_coor (8 bytes) is optional in the format; an index that equals the
        // original except for an absent unplaced-unmapped count is "the original minus an optional
        // trailing field"
        // (CSI / tabix: the same optional field ends the uncompressed stream; when everything before
        // it is intact the cut lies in or right before the BGZF member(s) that store it)
        if obs.end == End::Eof && ((kind == Kind::Bai && k + 8 >= len) || matches!(kind, Kind::Csi | Kind::Tabix)) && got.len() == 1 && want.len() == 1 {
            let strip = |s: &str| match s.find("unplaced_unmapped_record_count: ") {
                Some(i) => s[..i].to_string(),
                None => s.to_string(),
            };
            if strip(&got[0]) == strip(&want[0]) && got[0].contains("unplaced_unmapped_record_count: None") {
                return None;
            }
        }
        if obs.end == End::Eof && got != *want {
            return Some((
                "altered-index".into(),
                format!("\u{1}truncated index loaded without error but differs: {}", clip(got.first().map(|s| s.as_str()).unwrap_or("<none>"))),
            ));
        }
        return None;
    }
    for (i, g) in got.iter().enumerate() {
        match want.get(i) {
            None => {
                return Some((
                    "fabricated-record".into(),
                    format!("\u{1}item {i} beyond the {} written: {}", want.len(), clip(g)),
                ));
            }
            Some(w) if w != g => {
                // a stream that ends inside the (text) header: the header delivered is a prefix
                // of the written one and no record follows -- a prefix of the bytes, not an
                // altered record
                if i == 0 && got.len() == 1 && g.starts_with("H|") && w.starts_with(g.as_str()) && k < len {
                    continue;
                }
                // the statement speaks of records and bytes; a cut inside the header region of a
                // raw record stream that yields *no record at all* is not judged on the header
                // text (counted by the probe header_altered_by_cut_inside_header instead)
                if i == 0 && got.len() == 1 && g.starts_with("H|") && k < made.boundaries.get(1).copied().unwrap_or(0) && kinds::record_stream_kind(kind) {
                    continue;
                }
                let class = if g.starts_with("H|") { "altered-header" } else { "altered-record" };
                return Some((
                    class.into(),
                    format!("\u{1}item {i} differs from what was written: got {} / written {}", clip(g), clip(w)),
                ));
            }
            _ => {}
        }
    }
    if k >= len {
        if obs.end != End::Eof || got.len() != want.len() {
            return Some((
                "fault-free-mismatch".into(),
                format!("\u{1}complete file read back as {} of {} items, end {:?}", got.len(), want.len(), obs.end),
            ));
        }
        return None;
    }
    // "ends inside a record" clauses
    if kinds::record_stream_kind(kind) && obs.end == End::Eof {
        let header_end = made.boundaries.get(1).copied().unwrap_or(0);
        if k > header_end && made.boundaries.binary_search(&k).is_err() {
            return Some((
                "clean-eof-inside-record".into(),
                format!("\u{1}stream ends inside a record (offset {k}) but the reader reported a clean end after {} items", got.len()),
            ));
        }
    }
    if kinds::container_kind(kind) && obs.end == End::Eof {
        // boundaries = container starts (+ file length); a cut strictly inside a container
        // the EOF container is recognised from its (CRC-protected) 23-byte header alone; a cut
        // inside its fixed, data-free 15-byte body loses nothing and is not judged
        let nb = made.boundaries.len();
        let in_eof_body = nb >= 2 && k >= made.boundaries[nb - 2] + 23;
        if !in_eof_body && made.boundaries.binary_search(&k).is_err() && k > made.boundaries.first().copied().unwrap_or(0) {
            return Some((
                "clean-eof-inside-container".into(),
                format!("\u{1}file ends inside a container (offset {k}) but the reader reported a clean end after {} items", got.len()),
            ));
        }
    }
    None
}

pub fn enumerate_cuts(made: &Made, cuts: &Cuts) -> Vec<usize> {
    let len = made.bytes.len();
    match cuts {
        Cuts::All => (0..=len).collect(),
        Cuts::List(v) => v.iter().map(|&k| k.min(len)).collect(),
        Cuts::Near { radius, sample, seed } => {
            let mut set = std::collections::BTreeSet::new();
            let mut rng = Rng::new(*seed);
            // all boundaries when there are few; else the first/last 12 and 26 seeded ones
            let cram = made.spec.kind == Kind::Cram;
            let bs: Vec<usize> = if made.boundaries.len() <= if cram { 12 } else { 50 } {
                made.boundaries.clone()
            } else {
                let n = made.boundaries.len();
                let edge = if cram { 5 } else { 12 };
                let mut v: Vec<usize> = made.boundaries[..edge].to_vec();
                v.extend_from_slice(&made.boundaries[n - edge..]);
                for _ in 0..(if cram { 6 } else { 26 }) {
                    v.push(made.boundaries[rng.usize_below(n)]);
                }
                v
            };
            for &b in &bs {
                let lo = b.saturating_sub(*radius);
                let hi = (b + radius).min(len);
                for k in lo..=hi {
                    set.insert(k);
                }
            }
            for _ in 0..*sample {
                set.insert(rng.usize_below(len + 1));
            }
            // torn tails that look like structure: cuts right after four zero bytes (a truncated
            // BGZF member whose last bytes read as ISIZE = 0, a zero length/count field), up to 64
            // spread over the file
            if !cram {
                let b = &made.bytes;
                let zs: Vec<usize> = (4..len).filter(|&k| b[k - 4..k] == [0, 0, 0, 0] && b[k] != 0).collect();
                let step = zs.len().div_ceil(64).max(1);
                for k in zs.into_iter().step_by(step) {
                    set.insert(k);
                }
            }
            set.insert(len);
            set.insert(0);
            set.into_iter().collect()
        }
    }
}

impl Check for C13 {
    fn id(&self) -> &'static str {
        "C13"
    }
    fn level(&self) -> &'static str {
        "fault_enumeration"
    }
    fn announce(&self) -> bool {
        true
    }
    fn watchdog_s(&self) -> u64 {
        60
    }
    fn n_cases(&self, tier: Tier) -> u64 {
        match tier {
            Tier::Quick => 60 * kinds::C13_KINDS.len() as u64,
            Tier::Thorough => 4000 * kinds::C13_KINDS.len() as u64,
        }
    }
    fn plan(&self, master: u64, idx: u64, _tier: Tier) -> Value {
        let mut rng = Rng::new(prng::derive(master, "C13", idx));
        let kind = kinds::C13_KINDS[(idx % kinds::C13_KINDS.len() as u64) as usize];
        let round = idx / kinds::C13_KINDS.len() as u64;
        // size classes: mostly files small enough to cut everywhere
        let size_class = match round % 10 {
            0..=2 => 0,
            3..=6 => 1,
            7 | 8 => 2,
            _ => 3,
        };
        let file = FileSpec {
            kind,
            size_class,
            seed: rng.next_u64(),
        };
        let cuts = if size_class <= 1 {
            Cuts::All
        } else {
            Cuts::Near {
                radius: 40,
                sample: 200,
                seed: rng.next_u64(),
            }
        };
        serde_json::to_value(Plan {
            kind: kind.name().into(),
            file,
            variants: Vec::new(),
            cuts,
            delivery: if rng.chance(1, 4) { rng.next_u64() | 1 } else { 0 },
            family: 0,
        })
        .unwrap()
    }
    fn execute(&self, plan: &Value, ctx: &mut RunCtx) -> Vec<Finding> {
        let p: Plan = serde_json::from_value(plan.clone()).expect("bad C13 plan");
        let made = match kinds::make(&p.file) {
            Ok(m) => m,
            Err(_) => {
                ctx.stats.probe("workload_unbuildable", 1);
                return Vec::new();
            }
        };
        let len = made.bytes.len();
        // a file too large to cut everywhere falls back to boundary cuts
        let cuts = match &p.cuts {
            Cuts::All if len > 6000 || (p.file.kind == Kind::Cram && len > 1500) => Cuts::Near {
                radius: 40,
                sample: 200,
                seed: p.file.seed ^ 0x5eed,
            },
            c => c.clone(),
        };
        // CRAM decoding costs milliseconds per read: fewer cut points per file
        let cuts = match cuts {
            Cuts::Near { seed, .. } if p.file.kind == Kind::Cram => Cuts::Near {
                radius: 6,
                sample: 40,
                seed,
            },
            c => c,
        };
        let ks = enumerate_cuts(&made, &cuts);
        let variants: Vec<u8> = if p.variants.is_empty() {
            (0..p.file.kind.variants()).collect()
        } else {
            p.variants.clone()
        };
        // the noodles-util facade cannot open some intact files at all (e.g. an empty bgzipped SAM: its
        // format detection needs four decoded bytes) — a defect of the pure detection step, not of its
        // handling of truncation: such a file is not read through the facade
        let variants: Vec<u8> = variants
            .into_iter()
            .filter(|&v| {
                if !kinds::is_util_variant(p.file.kind, v) {
                    return true;
                }
                let o = kinds::read(p.file.kind, v, crate::fmt::Source::plain(made.bytes.clone()));
                let ok = o.end == End::Eof;
                if !ok {
                    ctx.stats.probe("facade_cannot_read_intact_file", 1);
                }
                ok
            })
            .collect();
        if variants.is_empty() {
            return Vec::new();
        }
        let file_hash = prng::hash_bytes(&made.bytes);
        let mut findings: Vec<Finding> = Vec::new();
        let mut seen_sig: std::collections::BTreeSet<String> = Default::default();
        let all = matches!(cuts, Cuts::All);
        let chunking = delivery_chunking(p.delivery, len);
        ctx.stats.probe_if("truncated_file_read_through_short_reads", p.delivery != 0);
        for (ci, &k) in ks.iter().enumerate() {
            // all variants on exhaustive small files; rotate otherwise
            let vs: Vec<u8> = if all || ks.len() < 50 {
                variants.clone()
            } else {
                vec![variants[ci % variants.len()]]
            };
            for v in vs {
              for is_async in [false, true] {
                if (is_async && p.family == 1) || (!is_async && p.family == 2) {
                    continue;
                }
                if is_async && !crate::fmt::aio::has_async_reader(p.file.kind, v) {
                    continue;
                }
                let narrowed = || {
                    serde_json::to_value(Plan {
                        kind: p.kind.clone(),
                        file: p.file.clone(),
                        variants: vec![v],
                        cuts: Cuts::List(vec![k]),
                        delivery: p.delivery,
                        family: if is_async { 2 } else { 1 },
                    })
                    .unwrap()
                };
                if !ctx.begin_sub(narrowed) {
                    continue;
                }
                let obs = if is_async {
                    // the async twin of the reader over the surviving bytes (plain poll schedule,
                    // or partial transfers when the case uses short-read delivery)
                    use crate::seams::aio::{AioCounters, AioPlan, Part, Pend, SimAsyncRead};
                    let aio = if p.delivery == 0 {
                        AioPlan::plain()
                    } else {
                        AioPlan {
                            pend: Pend::Prob { num: 1, den: 4 },
                            part: match &chunking {
                                Chunking::One => Part::One,
                                Chunking::Random { max, .. } => Part::Random { max: *max },
                                _ => Part::Full,
                            },
                            seed: p.delivery,
                            max_gate_delay: 2,
                        }
                    };
                    let counters = std::sync::Arc::new(std::sync::Mutex::new(AioCounters::default()));
                    counters.lock().unwrap().budget = 40_000_000 + 64 * k as u64;
                    let data = std::sync::Arc::new(made.bytes[..k.min(len)].to_vec());
                    let src = SimAsyncRead::new(data, aio.clone(), counters.clone());
                    let kind = p.file.kind;
                    match crate::aexec::run(&aio, counters.clone(), || crate::fmt::aio::aread(kind, v, src, 1)) {
                        Ok(o) => o,
                        Err(pn) => crate::fmt::Obs {
                            items: Vec::new(),
                            bytes: Vec::new(),
                            end: End::Panic { witness: pn.witness(), msg: format!("{}: {}", pn.location, pn.message) },
                        },
                    }
                } else {
                    let d = Delivery {
                        read: ReadPlan {
                            // the noodles-util facade sniffs the format from its first fill_buf()
                            // window only (known finding of C12): it gets the surviving bytes in
                            // full reads, so that C13 judges its handling of the truncation
                            chunking: if kinds::is_util_variant(p.file.kind, v) { Chunking::Full } else { chunking.clone() },
                            ..ReadPlan::cut(k)
                        },
                        wrap: Wrap::Direct,
                    };
                    let (src, _c) = d.open(made.bytes.clone());
                    kinds::read(p.file.kind, v, src)
                };
                ctx.stats.evaluations += 1;
                ctx.stats.steps += 1;
                ctx.stats.probe_if("async_reader_on_truncated_file", is_async);
                if k < len {
                    ctx.stats.fault("R_CUT", 1);
                    ctx.stats.nontrivial(Fnv::new().u64(file_hash).u64(k as u64).u64(v as u64).u64(is_async as u64).get());
                    let cc = cut_class(&made, k);
                    ctx.stats.probe(&format!("cut_{cc}"), 1);
                    if matches!(obs.end, End::Err { .. }) {
                        ctx.stats.probe("truncation_reported_as_error", 1);
                    } else {
                        ctx.stats.probe("truncation_reported_as_clean_eof", 1);
                    }
                    if k + 28 == len && p.file.kind.is_bgzf_container() {
                        ctx.stats.probe("cut_removes_only_eof_marker", 1);
                    }
                } else {
                    ctx.stats.probe("fault_free_configuration", 1);
                }
                if let Some((class, detail)) = judge(&made, k, &obs) {
                    let (w_extra, msg) = detail.split_once('\u{1}').unwrap_or(("", &detail));
                    let witness = if class == "panic" {
                        w_extra.to_string()
                    } else {
                        cut_class(&made, k).to_string()
                    };
                    let violation = Violation::new(
                        &format!("{}:{}{}", p.file.kind.name(), if is_async { "async-" } else { "" }, kinds::variant_name(p.file.kind, v)),
                        &class,
                        &witness,
                        format!("cut at {k} of {len}: {msg}"),
                    );
                    let sig = violation.signature("C13");
                    if seen_sig.insert(sig) {
                        findings.push(Finding {
                            violation,
                            plan: narrowed(),
                        });
                    }
                }
              }
            }
        }
        ctx.stats.kind(p.file.kind.name());
        if all {
            ctx.stats.exhaustive.insert(format!(
                "all {} cut offsets of {} file {:016x}",
                len + 1,
                p.file.kind.name(),
                file_hash
            ));
            ctx.stats.probe("files_cut_at_every_offset", 1);
        } else {
            ctx.stats.probe("files_cut_near_boundaries", 1);
        }
        if ctx.stats.want_sample() && len > 0 {
            let k = ks[ks.len() / 2];
            ctx.stats.sample(|| json!({"file": p.file, "file_len": len, "cuts": ks.len(), "example_cut": k, "example_cut_class": cut_class(&made, k), "members_or_records": made.boundaries.len()}));
        }
        findings
    }
    fn shrink(&self, plan: &Value) -> Vec<Value> {
        let Ok(p) = serde_json::from_value::<Plan>(plan.clone()) else {
            return Vec::new();
        };
        let mut out = Vec::new();
        if p.delivery != 0 {
            let mut q = p.clone();
            q.delivery = 0;
            out.push(serde_json::to_value(q).unwrap());
        }
        // a smaller file of the same kind with all cuts (the minimiser keeps it only if the same
        // signature shows up again)
        for sc in 0..p.file.size_class {
            let mut q = p.clone();
            q.file.size_class = sc;
            q.cuts = Cuts::All;
            out.push(serde_json::to_value(q).unwrap());
        }
        out
    }
    fn rule(&self) -> String {
        "one evaluation = one (file, cut offset k, reading-protocol variant, reader family sync|async): the file is produced by the real noodles writer from a generated model, the simulated disk keeps bytes [0,k), a fresh reader reads to EOF/error. Files <= 6000 bytes are cut at EVERY offset 0..=len (listed under exhaustive_subspaces); larger files at every offset within 40 bytes of each structural boundary (BGZF member starts, record starts, container starts) plus 200 seeded offsets. Oracle: delivered items are a prefix of the written ones (bytes for BGZF), no panic, k=len reproduces everything, raw BAM/BCF record streams cut inside a record and CRAM files cut inside a container must end in Err; binary indexes: Err or equal index. distinct_nontrivial = distinct (file hash, k < len, variant)".into()
    }
    fn assumptions(&self) -> Vec<String> {
        vec![
            "the model text generated by the harness is the definition of 'what was written'; rendering of read records uses noodles' SAM/VCF text writers".into(),
            "plain (uncompressed, unframed) text files are not in the statement's list and are not cut".into(),
        ]
    }
    fn components(&self) -> Value {
        json!({"real": ["all noodles sync readers and writers of the listed kinds", "their async reader twins (tokio current_thread runtime, tokio-util codec, async inflate jobs through hook H2)"], "stub": ["disk (SimRead / SimAsyncRead with cut = crash point; a quarter of the cases deliver the surviving bytes in short reads / partial polls)"]})
    }
    fn expected_probes(&self) -> Vec<&'static str> {
        vec![
            "cut_at-member-boundary",
            "cut_in-member-header",
            "cut_in-member-body",
            "cut_removes_only_eof_marker",
            "fault_free_configuration",
            "files_cut_at_every_offset",
            "files_cut_near_boundaries",
            "async_reader_on_truncated_file",
            "truncated_file_read_through_short_reads",
        ]
    }
}
