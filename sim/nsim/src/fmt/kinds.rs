//! Registry of file kinds: how a valid file of each kind is generated (model + real noodles writer
//! on a fault-free Vec), how a model is written through the careful-user protocol to any sink, and
//! how a source of that kind is read into an observation.

use std::io::{self, BufRead, Read, Write};
use std::sync::Arc;

use serde::{Deserialize, Serialize};

use super::{Obs, ObsBuf, Source, align, index, observe, text, variant};
use crate::genr::{bytes as gbytes, sam as gsam, text as gtext, vcf as gvcf};
use crate::kernel::Rng;
use crate::model::bgzf as mbgzf;

#[derive(Serialize, Deserialize, Clone, Copy, PartialEq, Eq, Debug, PartialOrd, Ord)]
pub enum Kind {
    Bgzf,
    Sam,
    SamGz,
    Bam,
    BamRaw,
    Vcf,
    VcfGz,
    Bcf,
    BcfRaw,
    Fasta,
    Fastq,
    Gff,
    Gtf,
    Bed,
    Bai,
    Csi,
    Tabix,
    Gzi,
    Fai,
}

pub const ALL_KINDS: &[Kind] = &[
    Kind::Bgzf,
    Kind::Sam,
    Kind::SamGz,
    Kind::Bam,
    Kind::BamRaw,
    Kind::Vcf,
    Kind::VcfGz,
    Kind::Bcf,
    Kind::BcfRaw,
    Kind::Fasta,
    Kind::Fastq,
    Kind::Gff,
    Kind::Gtf,
    Kind::Bed,
    Kind::Bai,
    Kind::Csi,
    Kind::Tabix,
    Kind::Gzi,
    Kind::Fai,
];

/// kinds whose readers C12 exercises under the delivery adversary
pub const C12_KINDS: &[Kind] = ALL_KINDS;

/// kinds whose files C13 truncates (the statement's list; plain text formats are excluded; the
/// text index fai is an "index file" and is included)
pub const C13_KINDS: &[Kind] = &[
    Kind::Bgzf,
    Kind::SamGz,
    Kind::Bam,
    Kind::BamRaw,
    Kind::VcfGz,
    Kind::Bcf,
    Kind::BcfRaw,
    Kind::Bai,
    Kind::Csi,
    Kind::Tabix,
    Kind::Gzi,
    Kind::Fai,
];

/// kinds whose writers C14 drives against the faulty sink
pub const C14_KINDS: &[Kind] = ALL_KINDS;

/// binary index kinds: a truncated file must give Err or an equal index
pub fn index_kind(k: Kind) -> bool {
    matches!(k, Kind::Bai | Kind::Csi | Kind::Tabix | Kind::Gzi)
}
/// raw record streams: a cut inside a record must be an error
pub fn record_stream_kind(k: Kind) -> bool {
    matches!(k, Kind::BamRaw | Kind::BcfRaw)
}
/// container formats: a cut inside a container must be an error
pub fn container_kind(_k: Kind) -> bool {
    false
}

pub fn variant_name(kind: Kind, v: u8) -> &'static str {
    match kind {
        Kind::Fasta => ["records", "read_definition+read_sequence", "Indexer"][(v % 3) as usize],
        Kind::Fastq => ["records", "Indexer"][(v % 2) as usize],
        Kind::Gff | Kind::Gtf => ["lines", "record_bufs"][(v % 2) as usize],
        Kind::Bed => "read_record",
        Kind::Bgzf => ["read_to_end", "read-777", "fill_buf"][(v % 3) as usize],
        Kind::Bam => ["records", "record_bufs", "read_record+positions"][(v % 3) as usize],
        Kind::Bai | Kind::Csi | Kind::Tabix | Kind::Gzi | Kind::Fai => "read_index",
        _ => ["records", "record_bufs"][(v % 2) as usize],
    }
}

impl Kind {
    pub fn name(self) -> &'static str {
        match self {
            Kind::Bgzf => "bgzf",
            Kind::Sam => "sam",
            Kind::SamGz => "sam.gz",
            Kind::Bam => "bam",
            Kind::BamRaw => "bam-raw-stream",
            Kind::Vcf => "vcf",
            Kind::VcfGz => "vcf.gz",
            Kind::Bcf => "bcf",
            Kind::BcfRaw => "bcf-raw-stream",
            Kind::Fasta => "fasta",
            Kind::Fastq => "fastq",
            Kind::Gff => "gff",
            Kind::Gtf => "gtf",
            Kind::Bed => "bed",
            Kind::Bai => "bai",
            Kind::Csi => "csi",
            Kind::Tabix => "tabix",
            Kind::Gzi => "gzi",
            Kind::Fai => "fai",
        }
    }
    /// number of reading-protocol variants (lazy/buf records, ...)
    pub fn variants(self) -> u8 {
        match self {
            Kind::Bgzf | Kind::Bam | Kind::Fasta => 3,
            Kind::Bed | Kind::Bai | Kind::Csi | Kind::Tabix | Kind::Gzi | Kind::Fai => 1,
            _ => 2,
        }
    }
    pub fn is_bgzf_container(self) -> bool {
        matches!(
            self,
            Kind::Bgzf | Kind::SamGz | Kind::Bam | Kind::VcfGz | Kind::Bcf | Kind::Csi | Kind::Tabix
        )
    }
}

#[derive(Serialize, Deserialize, Clone, Debug, PartialEq)]
pub struct FileSpec {
    pub kind: Kind,
    /// 0 tiny, 1 small, 2 medium, 3 large
    pub size_class: u8,
    pub seed: u64,
}

/// What the harness knows about the content before any noodles writer is involved.
pub enum Model {
    /// byte payload split into write calls with flushes at the cut points
    Bytes { payload: Vec<u8>, cuts: Vec<usize> },
    Align { model: gsam::SamModel, parsed: align::Parsed },
    Variant { model: gvcf::VcfModel, parsed: variant::Parsed },
    Fasta(gtext::FastaModel, usize),
    Fastq(gtext::FastqModel),
    Lines(gtext::LinesModel),
    Bai(noodles_bam::bai::Index),
    Csi(noodles_csi::Index),
    Tabix(noodles_tabix::Index),
    Gzi(noodles_bgzf::gzi::Index),
    Fai(noodles_fasta::fai::Index),
}

pub struct Made {
    pub spec: FileSpec,
    pub model: Model,
    pub bytes: Arc<Vec<u8>>,
    /// items a complete fault-free read yields for model-backed variants (see `has_model`)
    pub expected: Vec<String>,
    /// structural boundaries (byte offsets into `bytes`): BGZF member starts, record/line starts
    pub boundaries: Vec<usize>,
    /// for BGZF containers: the block table and the uncompressed stream
    pub flat: Option<mbgzf::Flat>,
}

fn bgzf_boundaries(file: &[u8]) -> (Vec<usize>, Option<mbgzf::Flat>) {
    match mbgzf::walk(file) {
        Ok(w) => {
            let mut b: Vec<usize> = w.members.iter().map(|m| m.cpos as usize).collect();
            b.push(file.len());
            let n = file.len();
            (b, Some(mbgzf::Flat::from_walk(w, n)))
        }
        Err(_) => (Vec::new(), None),
    }
}

fn line_boundaries(text: &[u8]) -> Vec<usize> {
    let mut b = vec![0];
    for (i, &c) in text.iter().enumerate() {
        if c == b'\n' {
            b.push(i + 1);
        }
    }
    b
}

fn other(e: impl std::fmt::Display) -> io::Error {
    io::Error::other(e.to_string())
}

/// Phase 1 of `make`: the model (pure function of the spec).
pub fn model(spec: &FileSpec) -> io::Result<Model> {
    let mut rng = Rng::new(spec.seed);
    Ok(match spec.kind {
        Kind::Bgzf => {
            let len = match spec.size_class {
                0 => rng.usize_below(40),
                1 => rng.usize_below(600),
                2 => 1000 + rng.usize_below(70_000),
                _ => 66_000 + rng.usize_below(250_000),
            };
            let payload = gbytes::Payload {
                class: *rng.pick(&gbytes::CLASSES),
                len,
                seed: rng.next_u64(),
            }
            .bytes();
            let n_flush = rng.usize_below(4);
            let mut cuts: Vec<usize> = (0..n_flush).map(|_| rng.usize_below(len + 1)).collect();
            cuts.sort();
            Model::Bytes { payload, cuts }
        }
        Kind::Sam | Kind::SamGz | Kind::Bam | Kind::BamRaw => {
            let params = gsam::gen_params(&mut rng, spec.size_class);
            let model = gsam::generate(&params);
            let parsed = align::parse_model(&model)?;
            Model::Align { model, parsed }
        }
        Kind::Vcf | Kind::VcfGz | Kind::Bcf | Kind::BcfRaw => {
            let params = gvcf::gen_params(&mut rng, spec.size_class);
            let model = gvcf::generate(&params);
            let parsed = variant::parse_model(&model)?;
            Model::Variant { model, parsed }
        }
        Kind::Fasta => {
            let p = gtext::gen_params(&mut rng, spec.size_class);
            let w = p.width;
            Model::Fasta(gtext::fasta(&p), w)
        }
        Kind::Fastq => Model::Fastq(gtext::fastq(&gtext::gen_params(&mut rng, spec.size_class))),
        Kind::Gff => Model::Lines(gtext::gff(&gtext::gen_params(&mut rng, spec.size_class))),
        Kind::Gtf => Model::Lines(gtext::gtf(&gtext::gen_params(&mut rng, spec.size_class))),
        Kind::Bed => Model::Lines(gtext::bed(&gtext::gen_params(&mut rng, spec.size_class))),
        Kind::Bai | Kind::Csi => {
            // an index over a coordinate-sorted BAM (CSI: BAM or BCF)
            let from_bcf = spec.kind == Kind::Csi && rng.bool();
            if from_bcf {
                let mut params = gvcf::gen_params(&mut rng, spec.size_class.max(1));
                params.sorted = true;
                let model = gvcf::generate(&params);
                let parsed = variant::parse_model(&model)?;
                let mut bcf = Vec::new();
                variant::write_bcf(&mut bcf, &parsed)?;
                Model::Csi(index::csi_normalise(&index::csi_from_bcf(&bcf)?)?)
            } else {
                let mut params = gsam::gen_params(&mut rng, spec.size_class.max(1));
                params.sorted = true;
                params.n_refs = params.n_refs.max(1);
                let model = gsam::generate(&params);
                let parsed = align::parse_model(&model)?;
                let mut bam = Vec::new();
                align::write_bam(&mut bam, &parsed)?;
                if spec.kind == Kind::Bai {
                    Model::Bai(index::bai_from_bam(&bam)?)
                } else {
                    Model::Csi(index::csi_normalise(&index::csi_from_bam(&bam)?)?)
                }
            }
        }
        Kind::Tabix => {
            let mut params = gvcf::gen_params(&mut rng, spec.size_class.max(1));
            params.sorted = true;
            let model = gvcf::generate(&params);
            let parsed = variant::parse_model(&model)?;
            let gz = variant::write_vcfgz(Vec::new(), &parsed)?;
            Model::Tabix(index::tabix_from_vcfgz(&gz)?)
        }
        Kind::Gzi => {
            let n = match spec.size_class {
                0 => rng.usize_below(3),
                1 => rng.usize_below(20),
                2 => rng.usize_below(300),
                _ => 300 + rng.usize_below(3000),
            };
            let mut c = 0u64;
            let mut u = 0u64;
            let entries: Vec<(u64, u64)> = (0..n)
                .map(|_| {
                    c += 28 + rng.below(65_000);
                    u += 1 + rng.below(65_536);
                    (c, u)
                })
                .collect();
            Model::Gzi(noodles_bgzf::gzi::Index::from(entries))
        }
        Kind::Fai => {
            let m = gtext::fasta(&gtext::gen_params(&mut rng, spec.size_class));
            Model::Fai(index::fai_from_fasta(&m.text)?)
        }
    })
}

/// The careful-user write protocol of each kind (DESIGN.md §12) against any sink.
pub fn write_to<W: Write>(kind: Kind, model: &Model, w: W) -> io::Result<()> {
    match (kind, model) {
        (Kind::Bgzf, Model::Bytes { payload, cuts }) => {
            let mut w = noodles_bgzf::io::Writer::new(w);
            let mut prev = 0;
            for &c in cuts {
                w.write_all(&payload[prev..c])?;
                w.flush()?;
                prev = c;
            }
            w.write_all(&payload[prev..])?;
            w.finish().map(|_| ())
        }
        (Kind::Sam, Model::Align { parsed, .. }) => align::write_sam(w, parsed).map(|_| ()),
        (Kind::SamGz, Model::Align { parsed, .. }) => align::write_samgz(w, parsed).map(|_| ()),
        (Kind::Bam, Model::Align { parsed, .. }) => align::write_bam(w, parsed),
        (Kind::BamRaw, Model::Align { parsed, .. }) => align::write_bam_raw(w, parsed).map(|_| ()),
        (Kind::Vcf, Model::Variant { parsed, .. }) => variant::write_vcf(w, parsed).map(|_| ()),
        (Kind::VcfGz, Model::Variant { parsed, .. }) => variant::write_vcfgz(w, parsed).map(|_| ()),
        (Kind::Bcf, Model::Variant { parsed, .. }) => variant::write_bcf(w, parsed),
        (Kind::BcfRaw, Model::Variant { parsed, .. }) => variant::write_bcf_raw(w, parsed).map(|_| ()),
        (Kind::Fasta, Model::Fasta(m, width)) => text::write_fasta(w, m, *width),
        (Kind::Fastq, Model::Fastq(m)) => text::write_fastq(w, m),
        (Kind::Gff, Model::Lines(m)) => text::write_gff(w, m),
        (Kind::Gtf, Model::Lines(m)) => text::write_gtf(w, m),
        (Kind::Bed, Model::Lines(m)) => text::write_bed(w, m),
        (Kind::Bai, Model::Bai(i)) => index::write_bai(w, i),
        (Kind::Csi, Model::Csi(i)) => index::write_csi(w, i),
        (Kind::Tabix, Model::Tabix(i)) => index::write_tabix(w, i),
        (Kind::Gzi, Model::Gzi(i)) => index::write_gzi(w, i),
        (Kind::Fai, Model::Fai(i)) => index::write_fai(w, i),
        _ => Err(other("harness: kind/model mismatch")),
    }
}

/// Does the delivered file come from the harness text (reader kinds fed hand-made text, incl.
/// CRLF and odd line widths) rather than from the noodles writer?
fn made_from_text(kind: Kind) -> bool {
    matches!(kind, Kind::Fasta | Kind::Fastq | Kind::Gff | Kind::Gtf | Kind::Bed)
}

pub fn make(spec: &FileSpec) -> io::Result<Made> {
    let model = model(spec)?;
    let kind = spec.kind;
    let bytes: Vec<u8> = if made_from_text(kind) {
        match &model {
            Model::Fasta(m, _) => m.text.clone(),
            Model::Fastq(m) => m.text.clone(),
            Model::Lines(m) => m.text.clone(),
            _ => unreachable!(),
        }
    } else {
        let mut v = Vec::new();
        write_to(kind, &model, &mut v)?;
        v
    };
    let (boundaries, flat) = if kind.is_bgzf_container() {
        bgzf_boundaries(&bytes)
    } else {
        let b = match (&model, kind) {
            (_, Kind::BamRaw) => bam_raw_boundaries(&bytes),
            (_, Kind::BcfRaw) => bcf_raw_boundaries(&bytes),
            (Model::Fasta(m, _), _) => with_end(&m.starts, bytes.len()),
            (Model::Fastq(m), _) => with_end(&m.starts, bytes.len()),
            (Model::Lines(m), _) => with_end(&m.starts, bytes.len()),
            (_, Kind::Sam | Kind::Vcf | Kind::Fai) => line_boundaries(&bytes),
            _ => vec![0, bytes.len()],
        };
        (b, None)
    };
    let expected: Vec<String> = match &model {
        Model::Bytes { .. } => Vec::new(),
        Model::Align { model, .. } => align::expected_items(model),
        Model::Variant { model, .. } => variant::expected_items(model),
        Model::Fasta(m, _) => text::fasta_expected(m),
        Model::Fastq(m) => text::fastq_expected(m),
        Model::Lines(m) => m.lines.iter().map(|l| format!("L|{l}")).collect(),
        Model::Bai(i) => vec![format!("X|{i:?}")],
        Model::Csi(i) => vec![format!("X|{i:?}")],
        Model::Tabix(i) => vec![format!("X|{i:?}")],
        Model::Gzi(i) => vec![format!("X|{i:?}")],
        Model::Fai(i) => i.as_ref().iter().map(|r| format!("R|{r:?}")).collect(),
    };
    Ok(Made {
        spec: spec.clone(),
        model,
        bytes: Arc::new(bytes),
        expected,
        boundaries,
        flat,
    })
}

fn with_end(starts: &[usize], len: usize) -> Vec<usize> {
    let mut b = starts.to_vec();
    b.push(len);
    b
}

/// Record starts in an uncompressed BAM stream (harness parse of the documented layout).
pub fn bam_raw_boundaries(b: &[u8]) -> Vec<usize> {
    let mut out = vec![0usize];
    let rd = |p: usize| -> Option<usize> {
        b.get(p..p + 4)
            .map(|x| u32::from_le_bytes(x.try_into().unwrap()) as usize)
    };
    let mut p = 4;
    let Some(l_text) = rd(p) else { return out };
    p += 4 + l_text;
    let Some(n_ref) = rd(p) else { return out };
    p += 4;
    for _ in 0..n_ref {
        let Some(l_name) = rd(p) else { return out };
        p += 4 + l_name + 4;
    }
    out.push(p);
    while let Some(bs) = rd(p) {
        p += 4 + bs;
        if p > b.len() {
            break;
        }
        out.push(p);
    }
    out
}

/// Record starts in an uncompressed BCF stream: magic(5) l_text(4) text, then l_shared(4) l_indiv(4) ...
pub fn bcf_raw_boundaries(b: &[u8]) -> Vec<usize> {
    let mut out = vec![0usize];
    let rd = |p: usize| -> Option<usize> {
        b.get(p..p + 4)
            .map(|x| u32::from_le_bytes(x.try_into().unwrap()) as usize)
    };
    let mut p = 5;
    let Some(l_text) = rd(p) else { return out };
    p += 4 + l_text;
    out.push(p);
    while let (Some(ls), Some(li)) = (rd(p), rd(p + 4)) {
        p += 8 + ls + li;
        if p > b.len() {
            break;
        }
        out.push(p);
    }
    out
}

/// Reads a source of the given kind to the end with reading-protocol variant `variant`.
pub fn read(kind: Kind, variant: u8, src: Source) -> Obs {
    observe(|o| {
        let ObsBuf { items, bytes: out } = o;
        match kind {
            Kind::Bgzf => {
                let mut r = noodles_bgzf::io::Reader::new(src.into_read());
                match variant % 3 {
                    0 => {
                        r.read_to_end(out)?;
                    }
                    1 => {
                        let mut buf = [0u8; 777];
                        loop {
                            let n = match r.read(&mut buf) {
                                Ok(n) => n,
                                Err(e) if e.kind() == io::ErrorKind::Interrupted => continue,
                                Err(e) => return Err(e),
                            };
                            if n == 0 {
                                break;
                            }
                            out.extend_from_slice(&buf[..n]);
                        }
                    }
                    _ => loop {
                        let w = match r.fill_buf() {
                            Ok(w) => w,
                            Err(e) if e.kind() == io::ErrorKind::Interrupted => continue,
                            Err(e) => return Err(e),
                        };
                        if w.is_empty() {
                            break;
                        }
                        let n = w.len();
                        out.extend_from_slice(w);
                        r.consume(n);
                    },
                }
                items.push(format!("P|{}", u64::from(r.virtual_position())));
                Ok(())
            }
            Kind::Sam => align::read_sam(src, mode(variant), items),
            Kind::SamGz => align::read_samgz(src, mode(variant), items),
            Kind::Bam => match variant % 3 {
                2 => align::read_bam_positions(src, items),
                v => align::read_bam(src, mode(v), items),
            },
            Kind::BamRaw => align::read_bam_raw(src, mode(variant), items),
            Kind::Vcf => variant::read_vcf(src, mode(variant), items),
            Kind::VcfGz => variant::read_vcfgz(src, mode(variant), items),
            Kind::Bcf => variant::read_bcf(src, mode(variant), items),
            Kind::BcfRaw => variant::read_bcf_raw(src, mode(variant), items),
            Kind::Fasta => text::read_fasta(src, variant, items),
            Kind::Fastq => text::read_fastq(src, variant, items),
            Kind::Gff => text::read_gff(src, variant, items),
            Kind::Gtf => text::read_gtf(src, variant, items),
            Kind::Bed => text::read_bed(src, variant, items),
            Kind::Bai => index::read_bai(src.into_read(), items),
            Kind::Csi => index::read_csi(src.into_read(), items),
            Kind::Tabix => index::read_tabix(src.into_read(), items),
            Kind::Gzi => index::read_gzi(src.into_read(), items),
            Kind::Fai => index::read_fai(src.into_buf(), items),
        }
    })
}

fn mode(variant: u8) -> align::Mode {
    if variant % 2 == 0 {
        align::Mode::Lazy
    } else {
        align::Mode::Buf
    }
}

/// Does `Made.expected` describe what this variant yields (else the domain self-test only checks
/// for End::Eof)?
pub fn has_model(kind: Kind, variant: u8) -> bool {
    match kind {
        Kind::Fasta | Kind::Fastq | Kind::Gff | Kind::Gtf => variant == 0,
        Kind::Bed => false,
        _ => true,
    }
}

/// The content part of an observation (positions and other variant-specific items removed).
pub fn content_items(items: &[String]) -> Vec<String> {
    items
        .iter()
        .filter(|s| s.starts_with("H|") || s.starts_with("R|") || s.starts_with("L|") || s.starts_with("X|"))
        .cloned()
        .collect()
}
