//! Independent BGZF code: own CRC-32, own gzip-member parser (inflate by miniz_oxide, whereas
//! noodles uses zlib-rs through flate2), own block builder, and the block table / flat model used
//! to give virtual positions a denotation.

use serde::{Deserialize, Serialize};

pub const EOF_MARKER: [u8; 28] = [
    0x1f, 0x8b, 0x08, 0x04, 0x00, 0x00, 0x00, 0x00, 0x00, 0xff, 0x06, 0x00, 0x42, 0x43, 0x02, 0x00,
    0x1b, 0x00, 0x03, 0x00, 0x00, 0x00, 0x00, 0x00, 0x00, 0x00, 0x00, 0x00,
];

pub const HEADER_LEN: usize = 18;
pub const TRAILER_LEN: usize = 8;

fn crc_table() -> &'static [u32; 256] {
    use std::sync::OnceLock;
    static T: OnceLock<[u32; 256]> = OnceLock::new();
    T.get_or_init(|| {
        let mut t = [0u32; 256];
        for (i, e) in t.iter_mut().enumerate() {
            let mut c = i as u32;
            for _ in 0..8 {
                c = if c & 1 != 0 { 0xedb8_8320 ^ (c >> 1) } else { c >> 1 };
            }
            *e = c;
        }
        t
    })
}

pub fn crc32(data: &[u8]) -> u32 {
    let t = crc_table();
    let mut c = 0xffff_ffffu32;
    for &b in data {
        c = t[((c ^ b as u32) & 0xff) as usize] ^ (c >> 8);
    }
    c ^ 0xffff_ffff
}

#[derive(Clone, Debug, PartialEq, Eq)]
pub struct Member {
    /// compressed offset of the member in the file
    pub cpos: u64,
    /// total member length (header + cdata + trailer)
    pub csize: u64,
    /// uncompressed offset of its first byte
    pub ustart: u64,
    pub ulen: u64,
}

#[derive(Clone, Debug, Default)]
pub struct Walk {
    pub members: Vec<Member>,
    pub data: Vec<u8>,
    pub ends_with_eof_marker: bool,
}

/// Strict parse of a BGZF file as the specification describes what a *writer* must emit.
pub fn walk(file: &[u8]) -> Result<Walk, String> {
    let mut out = Walk::default();
    let mut p = 0usize;
    while p < file.len() {
        let rest = &file[p..];
        if rest.len() < HEADER_LEN {
            return Err(format!("member at {p}: truncated header ({} bytes)", rest.len()));
        }
        if rest[0] != 0x1f || rest[1] != 0x8b {
            return Err(format!("member at {p}: bad gzip magic"));
        }
        if rest[2] != 8 {
            return Err(format!("member at {p}: CM != 8"));
        }
        if rest[3] != 4 {
            return Err(format!("member at {p}: FLG != 4 (FEXTRA only)"));
        }
        let xlen = u16::from_le_bytes([rest[10], rest[11]]);
        if xlen != 6 {
            return Err(format!("member at {p}: XLEN = {xlen}, expected 6"));
        }
        if rest[12] != b'B' || rest[13] != b'C' {
            return Err(format!("member at {p}: extra subfield is not BC"));
        }
        let slen = u16::from_le_bytes([rest[14], rest[15]]);
        if slen != 2 {
            return Err(format!("member at {p}: SLEN = {slen}, expected 2"));
        }
        let bsize = u16::from_le_bytes([rest[16], rest[17]]) as usize;
        let total = bsize + 1;
        if total > 65536 {
            return Err(format!("member at {p}: BSIZE+1 = {total} > 65536"));
        }
        if total < HEADER_LEN + TRAILER_LEN {
            return Err(format!("member at {p}: BSIZE+1 = {total} too small"));
        }
        if rest.len() < total {
            return Err(format!(
                "member at {p}: BSIZE+1 = {total} runs past the end of the file ({} left)",
                rest.len()
            ));
        }
        let cdata = &rest[HEADER_LEN..total - TRAILER_LEN];
        let crc = u32::from_le_bytes(rest[total - 8..total - 4].try_into().unwrap());
        let isize_ = u32::from_le_bytes(rest[total - 4..total].try_into().unwrap()) as usize;
        if isize_ > 65536 {
            return Err(format!("member at {p}: ISIZE = {isize_} > 65536"));
        }
        let inflated = miniz_oxide::inflate::decompress_to_vec_with_limit(cdata, 65536)
            .map_err(|e| format!("member at {p}: inflate failed: {e:?}"))?;
        if inflated.len() != isize_ {
            return Err(format!(
                "member at {p}: ISIZE = {isize_} but data inflates to {} bytes",
                inflated.len()
            ));
        }
        let my = crc32(&inflated);
        if my != crc {
            return Err(format!("member at {p}: CRC32 {crc:08x} != computed {my:08x}"));
        }
        out.members.push(Member {
            cpos: p as u64,
            csize: total as u64,
            ustart: out.data.len() as u64,
            ulen: inflated.len() as u64,
        });
        out.data.extend_from_slice(&inflated);
        p += total;
    }
    out.ends_with_eof_marker = file.len() >= 28 && file[file.len() - 28..] == EOF_MARKER;
    Ok(out)
}

#[derive(Clone, Copy, Debug, Serialize, Deserialize, PartialEq, Eq)]
pub enum Enc {
    /// deflate "stored" blocks (no compression)
    Stored,
    /// miniz_oxide deflate at this level (0..=10)
    Deflate(u8),
}

/// Builds one BGZF member with harness code only. Returns None if it would not fit in 64 KiB.
pub fn build_member(data: &[u8], enc: Enc) -> Option<Vec<u8>> {
    assert!(data.len() <= 65536);
    let cdata = match enc {
        Enc::Stored => {
            let mut c = Vec::with_capacity(data.len() + 10);
            if data.is_empty() {
                c.extend_from_slice(&[0x01, 0x00, 0x00, 0xff, 0xff]);
            } else {
                let mut chunks = data.chunks(65535).peekable();
                while let Some(ch) = chunks.next() {
                    let last = chunks.peek().is_none();
                    c.push(if last { 1 } else { 0 });
                    let l = ch.len() as u16;
                    c.extend_from_slice(&l.to_le_bytes());
                    c.extend_from_slice(&(!l).to_le_bytes());
                    c.extend_from_slice(ch);
                }
            }
            c
        }
        Enc::Deflate(level) => miniz_oxide::deflate::compress_to_vec(data, level),
    };
    let total = HEADER_LEN + cdata.len() + TRAILER_LEN;
    if total > 65536 {
        return None;
    }
    let mut m = Vec::with_capacity(total);
    m.extend_from_slice(&[0x1f, 0x8b, 0x08, 0x04, 0, 0, 0, 0, 0x00, 0xff, 0x06, 0x00, b'B', b'C', 0x02, 0x00]);
    m.extend_from_slice(&((total - 1) as u16).to_le_bytes());
    m.extend_from_slice(&cdata);
    m.extend_from_slice(&crc32(data).to_le_bytes());
    m.extend_from_slice(&(data.len() as u32).to_le_bytes());
    Some(m)
}

/// Re-seals the CRC32 and ISIZE of the member starting at `cpos` after its *compressed* payload
/// was tampered with is not possible in general; this instead rebuilds a member from new
/// uncompressed content.
pub fn rebuild_member(data: &[u8]) -> Vec<u8> {
    build_member(data, Enc::Deflate(6))
        .or_else(|| build_member(data, Enc::Stored))
        .expect("member fits")
}

/// The block table of a well-formed BGZF file and the flat uncompressed content: the reference
/// model that gives virtual positions a meaning.
#[derive(Clone, Debug, Default)]
pub struct Flat {
    pub members: Vec<Member>,
    pub data: Vec<u8>,
    pub file_len: u64,
}

impl Flat {
    pub fn from_walk(w: Walk, file_len: usize) -> Self {
        Self {
            members: w.members,
            data: w.data,
            file_len: file_len as u64,
        }
    }

    pub fn len(&self) -> u64 {
        self.data.len() as u64
    }

    /// The flat offset a virtual position denotes, if it is a legal spelling of a byte boundary:
    /// a member starts at `cpos` and `upos <= ulen`; the end of the file counts as the start of
    /// an empty member (that is what readers report at EOF).
    pub fn denote(&self, cpos: u64, upos: u16) -> Option<u64> {
        if cpos == self.file_len {
            return (upos == 0).then_some(self.len());
        }
        let i = self.members.binary_search_by_key(&cpos, |m| m.cpos).ok()?;
        let m = &self.members[i];
        (upos as u64 <= m.ulen).then_some(m.ustart + upos as u64)
    }

    /// All legal spellings of the flat offset `off` as (cpos, upos).
    pub fn spellings(&self, off: u64) -> Vec<(u64, u16)> {
        let mut v = Vec::new();
        for m in &self.members {
            if off >= m.ustart && off <= m.ustart + m.ulen {
                let u = off - m.ustart;
                if u <= u16::MAX as u64 {
                    v.push((m.cpos, u as u16));
                }
            }
        }
        if off == self.len() {
            v.push((self.file_len, 0));
        }
        v
    }

    /// gzi entries: (compressed offset, uncompressed offset) of every member but the first.
    pub fn gzi_entries(&self) -> Vec<(u64, u64)> {
        self.members
            .iter()
            .skip(1)
            .map(|m| (m.cpos, m.ustart))
            .collect()
    }
}

#[cfg(test)]
mod tests {
    use super::*;
    #[test]
    fn crc_known() {
        assert_eq!(crc32(b"123456789"), 0xcbf43926);
        assert_eq!(crc32(b""), 0);
    }
    #[test]
    fn eof_marker_walks() {
        let w = walk(&EOF_MARKER).unwrap();
        assert_eq!(w.members.len(), 1);
        assert!(w.ends_with_eof_marker);
        assert_eq!(build_member(&[], Enc::Deflate(6)).map(|m| walk(&m).is_ok()), Some(true));
    }
}
