//! Simulated byte source: `Read + Seek` (and a `BufRead` variant) whose delivery pattern —
//! short reads, `Interrupted`, cut (crash of the writer), hard I/O error — is decided by a plan.

use std::io::{self, BufRead, Read, Seek, SeekFrom};
use std::sync::{Arc, Mutex};

use serde::{Deserialize, Serialize};

use crate::kernel::Rng;

/// How many bytes a `read(buf)` of n requested bytes returns.
#[derive(Clone, Debug, Serialize, Deserialize, PartialEq)]
pub enum Chunking {
    /// everything asked for (what `&[u8]` does)
    Full,
    /// one byte per call
    One,
    /// uniformly 1..=max per call
    Random { max: usize, seed: u64 },
    /// mostly full, sometimes short (n-1, n/2, 1)
    Sparse { seed: u64, one_in: u64 },
    /// reads stop exactly at these absolute offsets (sorted); otherwise full
    SplitAt(Vec<usize>),
    /// reads stop at `boundary + delta` for each boundary; otherwise full
    Aligned { boundaries: Vec<usize>, delta: i64 },
}

#[derive(Clone, Debug, Serialize, Deserialize, PartialEq)]
pub enum Eintr {
    None,
    /// each call fails with Interrupted with probability 1/one_in (never twice in a row > 3)
    Random { seed: u64, one_in: u64 },
    /// exactly these call indices (0-based, counting every read/fill_buf call) fail
    AtCalls(Vec<u64>),
}

#[derive(Clone, Debug, Serialize, Deserialize, PartialEq)]
pub struct ReadPlan {
    pub chunking: Chunking,
    pub eintr: Eintr,
    /// the file ends here (clean `Ok(0)`), as after a crash of the writer
    pub cut: Option<usize>,
    /// once this offset is reached, reads fail hard
    pub ioerr_at: Option<usize>,
}

impl ReadPlan {
    pub fn plain() -> Self {
        Self {
            chunking: Chunking::Full,
            eintr: Eintr::None,
            cut: None,
            ioerr_at: None,
        }
    }
    pub fn cut(k: usize) -> Self {
        Self {
            cut: Some(k),
            ..Self::plain()
        }
    }
    pub fn is_adversarial(&self) -> bool {
        self.chunking != Chunking::Full || self.eintr != Eintr::None
    }
}

pub const IOERR_MARKER: &str = "nsim: injected source error";

#[derive(Default, Clone, Debug)]
pub struct ReadCounters {
    pub calls: u64,
    pub short: u64,
    pub eintr: u64,
    pub cut_hit: u64,
    pub ioerr: u64,
    pub seeks: u64,
    /// absolute offsets at which a data-returning read ended before the request was satisfied
    pub split_offsets: Vec<usize>,
    /// call indices at which Interrupted was returned
    pub eintr_calls: Vec<u64>,
}

pub type SharedCounters = Arc<Mutex<ReadCounters>>;

pub struct SimRead {
    data: Arc<Vec<u8>>,
    pos: usize,
    plan: ReadPlan,
    rng: Rng,
    erng: Rng,
    consecutive_eintr: u32,
    pub counters: ReadCounters,
    shared: Option<SharedCounters>,
    record_splits: bool,
}

impl Drop for SimRead {
    fn drop(&mut self) {
        self.publish();
    }
}

impl SimRead {
    pub fn new(data: Arc<Vec<u8>>, plan: ReadPlan) -> Self {
        let seed = match &plan.chunking {
            Chunking::Random { seed, .. } | Chunking::Sparse { seed, .. } => *seed,
            _ => 0,
        };
        let eseed = match &plan.eintr {
            Eintr::Random { seed, .. } => *seed,
            _ => 0,
        };
        Self {
            data,
            pos: 0,
            plan,
            rng: Rng::new(seed),
            erng: Rng::new(eseed),
            consecutive_eintr: 0,
            counters: ReadCounters::default(),
            shared: None,
            record_splits: false,
        }
    }

    /// A handle through which the counters can be read after the reader under test consumed
    /// (and dropped) this source. Updated on drop and on `publish`.
    pub fn shared_counters(&mut self) -> SharedCounters {
        self.record_splits = true;
        self.shared.get_or_insert_with(Default::default).clone()
    }

    pub fn publish(&self) {
        if let Some(s) = &self.shared {
            *s.lock().unwrap() = self.counters.clone();
        }
    }

    pub fn from_vec(data: Vec<u8>, plan: ReadPlan) -> Self {
        Self::new(Arc::new(data), plan)
    }

    pub fn record_splits(mut self, on: bool) -> Self {
        self.record_splits = on;
        self
    }

    fn end(&self) -> usize {
        match self.plan.cut {
            Some(k) => k.min(self.data.len()),
            None => self.data.len(),
        }
    }

    pub fn position(&self) -> usize {
        self.pos
    }

    fn maybe_eintr(&mut self) -> bool {
        let call = self.counters.calls;
        let fire = match &self.plan.eintr {
            Eintr::None => false,
            Eintr::Random { one_in, .. } => {
                let f = self.erng.below(*one_in) == 0 && self.consecutive_eintr < 3;
                f
            }
            Eintr::AtCalls(v) => v.contains(&call),
        };
        if fire {
            self.consecutive_eintr += 1;
            self.counters.eintr += 1;
            if self.record_splits {
                self.counters.eintr_calls.push(call);
            }
        } else {
            self.consecutive_eintr = 0;
        }
        fire
    }

    /// Number of bytes to deliver for a request of `want` bytes at the current position
    /// (`avail` = bytes until the end of the file).
    fn grant(&mut self, want: usize, avail: usize) -> usize {
        let n = want.min(avail);
        if n <= 1 {
            return n;
        }
        match &self.plan.chunking {
            Chunking::Full => n,
            Chunking::One => 1,
            Chunking::Random { max, .. } => {
                let m = (*max).max(1).min(n);
                1 + self.rng.usize_below(m)
            }
            Chunking::Sparse { one_in, .. } => {
                if self.rng.below(*one_in) == 0 {
                    match self.rng.below(3) {
                        0 => n - 1,
                        1 => (n / 2).max(1),
                        _ => 1,
                    }
                } else {
                    n
                }
            }
            Chunking::SplitAt(offs) => {
                let pos = self.pos;
                // first split strictly after pos
                let i = offs.partition_point(|&o| o <= pos);
                match offs.get(i) {
                    Some(&o) if o < pos + n => o - pos,
                    _ => n,
                }
            }
            Chunking::Aligned { boundaries, delta } => {
                let pos = self.pos as i64;
                let mut best: Option<i64> = None;
                // boundaries sorted; find the first boundary+delta strictly after pos
                let start = boundaries.partition_point(|&b| (b as i64 + delta) <= pos);
                if let Some(&b) = boundaries.get(start) {
                    best = Some(b as i64 + delta);
                }
                match best {
                    Some(o) if o < pos + n as i64 => (o - pos) as usize,
                    _ => n,
                }
            }
        }
    }
}

impl Read for SimRead {
    fn read(&mut self, buf: &mut [u8]) -> io::Result<usize> {
        if self.maybe_eintr() {
            self.counters.calls += 1;
            return Err(io::Error::new(io::ErrorKind::Interrupted, "nsim: EINTR"));
        }
        self.counters.calls += 1;
        if let Some(k) = self.plan.ioerr_at {
            if self.pos >= k {
                self.counters.ioerr += 1;
                return Err(io::Error::other(IOERR_MARKER));
            }
        }
        let mut end = self.end();
        if let Some(k) = self.plan.ioerr_at {
            end = end.min(k);
        }
        let avail = end.saturating_sub(self.pos);
        if avail == 0 {
            if let Some(k) = self.plan.ioerr_at {
                if self.pos >= k {
                    self.counters.ioerr += 1;
                    return Err(io::Error::other(IOERR_MARKER));
                }
            }
            if self.plan.cut.is_some() && self.pos < self.data.len() + 1 && !buf.is_empty() {
                self.counters.cut_hit += 1;
            }
            return Ok(0);
        }
        if buf.is_empty() {
            return Ok(0);
        }
        let want = buf.len();
        let n = self.grant(want, avail);
        buf[..n].copy_from_slice(&self.data[self.pos..self.pos + n]);
        self.pos += n;
        if n < want.min(avail) {
            self.counters.short += 1;
            if self.record_splits {
                self.counters.split_offsets.push(self.pos);
            }
        }
        Ok(n)
    }
}

impl Seek for SimRead {
    fn seek(&mut self, pos: SeekFrom) -> io::Result<u64> {
        self.counters.seeks += 1;
        let len = self.end() as i64;
        let new = match pos {
            SeekFrom::Start(p) => p as i64,
            SeekFrom::End(d) => len + d,
            SeekFrom::Current(d) => self.pos as i64 + d,
        };
        if new < 0 {
            return Err(io::Error::new(
                io::ErrorKind::InvalidInput,
                "nsim: seek before start",
            ));
        }
        self.pos = new as usize;
        Ok(new as u64)
    }
}

/// A `BufRead` whose `fill_buf` windows are themselves short and which can return `Interrupted`
/// from `fill_buf` — unlike `std::io::BufReader`, which never shows a window shorter than what
/// one inner read returned but otherwise behaves the same.
pub struct SimBufRead {
    inner: SimRead,
    buf: Vec<u8>,
    start: usize,
    end: usize,
}

impl SimBufRead {
    pub fn new(inner: SimRead, capacity: usize) -> Self {
        Self {
            inner,
            buf: vec![0; capacity.max(1)],
            start: 0,
            end: 0,
        }
    }
    pub fn counters(&self) -> &ReadCounters {
        &self.inner.counters
    }
    pub fn into_inner(self) -> SimRead {
        self.inner
    }
}

impl Read for SimBufRead {
    fn read(&mut self, out: &mut [u8]) -> io::Result<usize> {
        if self.start == self.end && out.len() >= self.buf.len() {
            return self.inner.read(out);
        }
        let w = self.fill_buf()?;
        let n = w.len().min(out.len());
        out[..n].copy_from_slice(&w[..n]);
        self.consume(n);
        Ok(n)
    }
}

impl BufRead for SimBufRead {
    fn fill_buf(&mut self) -> io::Result<&[u8]> {
        if self.start == self.end {
            let n = self.inner.read(&mut self.buf)?;
            self.start = 0;
            self.end = n;
        }
        Ok(&self.buf[self.start..self.end])
    }
    fn consume(&mut self, amt: usize) {
        self.start = (self.start + amt).min(self.end);
    }
}

impl Seek for SimBufRead {
    fn seek(&mut self, pos: SeekFrom) -> io::Result<u64> {
        let pos = match pos {
            SeekFrom::Current(d) => {
                let unread = (self.end - self.start) as i64;
                SeekFrom::Current(d - unread)
            }
            p => p,
        };
        self.start = 0;
        self.end = 0;
        self.inner.seek(pos)
    }
}
