//! SAM model generator: produces SAM *text* (header lines + record lines) with harness code only.
//! The text is the model ("what was written"); noodles parses it into records that are then fed
//! to the SAM/BAM/CRAM writers. The generator stays inside the canonical domain on which the
//! unchanged tree reproduces the text exactly (validated by `nsim selftest domain`).

use serde::{Deserialize, Serialize};

use crate::kernel::Rng;

#[derive(Clone, Debug, Serialize, Deserialize, PartialEq)]
pub struct SamParams {
    pub seed: u64,
    pub n_refs: usize,
    pub n_records: usize,
    /// coordinate-sorted (for indexing)
    pub sorted: bool,
    /// maximum read length
    pub max_len: usize,
    /// enabled features (swarm)
    pub aux: bool,
    pub long_fields: bool,
    /// CRAM-safe sub-model: sequences derived from a reference, CIGAR consistent, limited aux
    pub cram_safe: bool,
    /// every record mapped (needs n_refs >= 1)
    #[serde(default)]
    pub all_mapped: bool,
    /// no record placed although references exist (an unaligned BAM with a dictionary): its index has
    /// no placed record at all
    #[serde(default)]
    pub all_unmapped: bool,
    /// one unmapped long read (70-200 kb, one base and one quality value throughout: a poly-A
    /// nanopore artefact): a text line / record spanning several BGZF blocks of near-zero entropy
    #[serde(default)]
    pub long_read: bool,
}

#[derive(Clone, Debug)]
pub struct SamModel {
    pub header: String,
    pub records: Vec<String>,
    /// reference sequences (name, bases) for the @SQ lines (used by CRAM and FASTA)
    pub refs: Vec<(String, Vec<u8>)>,
}

impl SamModel {
    /// The text with CRLF line terminators (SAM readers accept them); the model is unchanged.
    pub fn text_crlf(&self) -> String {
        self.text().replace('\n', "\r\n")
    }

    pub fn text(&self) -> String {
        let mut s = self.header.clone();
        for r in &self.records {
            s.push_str(r);
            s.push('\n');
        }
        s
    }
}

const BASES16: &[u8] = b"=ACMGRSVTWYHKDBN";
const BASES4: &[u8] = b"ACGT";

pub fn gen_params(rng: &mut Rng, size_class: u8) -> SamParams {
    let n_records = match size_class {
        0 => rng.usize_below(4),
        1 => 1 + rng.usize_below(12),
        2 => 10 + rng.usize_below(60),
        _ => 200 + rng.usize_below(1500),
    };
    SamParams {
        seed: rng.next_u64(),
        n_refs: match rng.below(6) {
            0 => 0,
            1 => 1,
            _ => 1 + rng.usize_below(4),
        },
        n_records,
        sorted: rng.bool(),
        max_len: *rng.pick(&[0usize, 1, 5, 30, 30, 120, 400]),
        aux: rng.chance(3, 4),
        long_fields: rng.chance(1, 6),
        cram_safe: false,
        all_mapped: false,
        all_unmapped: false,
        long_read: size_class == 3 && rng.chance(1, 5),
    }
}

fn gen_name(rng: &mut Rng, long: bool) -> String {
    if rng.chance(1, 12) {
        return "*".into();
    }
    let n = if long { 1 + rng.usize_below(200) } else { 1 + rng.usize_below(12) };
    let mut s = String::with_capacity(n);
    for i in 0..n {
        let c = match rng.below(8) {
            0 => b'0' + rng.below(10) as u8,
            1 => b'A' + rng.below(26) as u8,
            2 if i > 0 => *rng.pick(b":_./-#"),
            _ => b'a' + rng.below(26) as u8,
        };
        s.push(c as char);
    }
    if s == "*" { "r".into() } else { s }
}

fn gen_cigar(rng: &mut Rng, read_len: usize, cram_safe: bool) -> (String, usize) {
    // returns (cigar text, reference span)
    if read_len == 0 {
        // only reference-consuming / padding ops possible; keep it simple
        return ("*".into(), 0);
    }
    let mut ops: Vec<(usize, char)> = Vec::new();
    let mut left = read_len;
    let mut ref_span = 0usize;
    // optional leading clips
    if !cram_safe && rng.chance(1, 8) {
        ops.push((1 + rng.usize_below(5), 'H'));
    }
    if left > 2 && rng.chance(1, 4) {
        let n = 1 + rng.usize_below((left / 3).max(1));
        ops.push((n, 'S'));
        left -= n;
    }
    let mut first = true;
    while left > 0 {
        let kinds: &[char] = if cram_safe { &['M', 'M', 'M', 'I', 'D', 'N'] } else { &['M', 'M', 'M', '=', 'X', 'I', 'D', 'N', 'P'] };
        let mut k = *rng.pick(kinds);
        if first && matches!(k, 'I' | 'D' | 'N' | 'P') {
            k = 'M';
        }
        first = false;
        if let Some(&(_, last)) = ops.last() {
            if last == k {
                k = 'M';
                if last == 'M' {
                    // merge by extending instead of repeating
                    let n = 1 + rng.usize_below(left);
                    ops.last_mut().unwrap().0 += n;
                    left -= n;
                    ref_span += n;
                    continue;
                }
            }
        }
        match k {
            'M' | '=' | 'X' => {
                let n = 1 + rng.usize_below(left);
                ops.push((n, k));
                left -= n;
                ref_span += n;
            }
            'I' => {
                if left > 1 {
                    let n = 1 + rng.usize_below((left - 1).min(6));
                    ops.push((n, 'I'));
                    left -= n;
                }
            }
            'D' | 'N' => {
                if left > 0 {
                    let n = 1 + rng.usize_below(if k == 'N' { 50 } else { 5 });
                    ops.push((n, k));
                    ref_span += n;
                }
            }
            _ => {
                if left > 0 {
                    ops.push((1 + rng.usize_below(3), 'P'));
                }
            }
        }
        if ops.len() > 12 && left > 0 {
            // finish
            match ops.last_mut() {
                Some((n, 'M')) => {
                    *n += left;
                }
                _ => ops.push((left, 'M')),
            }
            ref_span += left;
            left = 0;
        }
    }
    // a trailing D/N/P/I directly before the end is legal in SAM but make the last op read-consuming
    while matches!(ops.last(), Some((_, 'D' | 'N' | 'P'))) {
        let (n, k) = ops.pop().unwrap();
        if k != 'P' {
            ref_span -= n;
        }
    }
    if !cram_safe && rng.chance(1, 10) {
        ops.push((1 + rng.usize_below(3), 'H'));
    }
    let mut s = String::new();
    for (n, k) in &ops {
        s.push_str(&n.to_string());
        s.push(*k);
    }
    (s, ref_span)
}

fn gen_aux(rng: &mut Rng, out: &mut String, long: bool, cram_safe: bool) {
    let n = rng.usize_below(6);
    let mut used: Vec<[u8; 2]> = Vec::new();
    for _ in 0..n {
        let tag = loop {
            let t = [b'X' + rng.below(3) as u8, b'a' + rng.below(26) as u8];
            if !used.contains(&t) {
                break t;
            }
        };
        used.push(tag);
        out.push('\t');
        out.push(tag[0] as char);
        out.push(tag[1] as char);
        out.push(':');
        let kinds = if cram_safe { 4 } else { 8 };
        match rng.below(kinds) {
            0 => {
                out.push_str("A:");
                out.push((b'!' + rng.below(94) as u8) as char);
            }
            1 => {
                out.push_str("i:");
                let v: i64 = match rng.below(12) {
                    0 => 0,
                    1 => -1,
                    2 => 127,
                    3 => -128,
                    4 => 255,
                    5 => 256,
                    6 => 32767,
                    7 => -32768,
                    8 => 65535,
                    9 => i32::MAX as i64,
                    10 => i32::MIN as i64,
                    _ => rng.irange(-70000, 70000),
                };
                out.push_str(&v.to_string());
            }
            2 => {
                out.push_str("Z:");
                let m = if long { rng.usize_below(300) } else { rng.usize_below(12) };
                for _ in 0..m {
                    out.push((b' ' + rng.below(95) as u8) as char);
                }
            }
            3 => {
                out.push_str("i:");
                out.push_str(&rng.irange(0, 200).to_string());
            }
            4 => {
                out.push_str("f:");
                out.push_str(*rng.pick(&["0", "1.5", "-2.25", "100.125", "3", "-0.5", "1e-10"]));
            }
            5 => {
                out.push_str("H:");
                let m = rng.usize_below(6);
                for _ in 0..m {
                    out.push_str(&format!("{:02X}", rng.below(256)));
                }
            }
            6 => {
                out.push_str("B:");
                let (t, lo, hi): (char, i64, i64) = *rng.pick(&[
                    ('c', -128, 127),
                    ('C', 0, 255),
                    ('s', -32768, 32767),
                    ('S', 0, 65535),
                    ('i', i32::MIN as i64, i32::MAX as i64),
                    ('I', 0, u32::MAX as i64),
                ]);
                out.push(t);
                let m = 1 + rng.usize_below(if long { 200 } else { 6 }); // empty arrays: lazy SAM reader rejects them (outside the canonical domain)
                for _ in 0..m {
                    out.push(',');
                    let v = match rng.below(4) {
                        0 => lo,
                        1 => hi,
                        _ => rng.irange(lo, hi),
                    };
                    out.push_str(&v.to_string());
                }
            }
            _ => {
                out.push_str("B:f");
                let m = 1 + rng.usize_below(5);
                for _ in 0..m {
                    out.push(',');
                    out.push_str(*rng.pick(&["0", "1.5", "-2.25", "8"]));
                }
            }
        }
    }
}

pub fn generate(p: &SamParams) -> SamModel {
    let mut rng = Rng::new(p.seed);
    // references
    let mut refs: Vec<(String, Vec<u8>)> = Vec::new();
    for i in 0..p.n_refs {
        let len = if p.cram_safe { 1200 + rng.usize_below(2000) } else { 50 + rng.usize_below(100_000) };
        let seq = if p.cram_safe {
            (0..len).map(|_| *rng.pick(BASES4)).collect()
        } else {
            Vec::new()
        };
        refs.push((format!("sq{i}"), seq));
        if !p.cram_safe {
            // only the length matters
            refs.last_mut().unwrap().1 = vec![b'N'; len];
        }
    }
    let mut header = String::new();
    if p.sorted {
        header.push_str("@HD\tVN:1.6\tSO:coordinate\n");
    } else if rng.chance(2, 3) {
        header.push_str("@HD\tVN:1.6\n");
    }
    for (name, seq) in &refs {
        header.push_str(&format!("@SQ\tSN:{name}\tLN:{}\n", seq.len()));
    }
    let n_rg = if p.cram_safe { rng.usize_below(2) } else { rng.usize_below(3) };
    for i in 0..n_rg {
        header.push_str(&format!("@RG\tID:rg{i}\n"));
    }
    if rng.chance(1, 2) {
        header.push_str("@PG\tID:pg0\tPN:nsim\n");
    }
    if rng.chance(1, 3) {
        header.push_str("@CO\tnsim generated file\n");
    }

    // records: (ref index or None, pos, text)
    let mut recs: Vec<(usize, i64, String)> = Vec::with_capacity(p.n_records);
    for _ in 0..p.n_records {
        let mapped = !refs.is_empty() && !p.all_unmapped && (rng.chance(5, 6) | p.all_mapped);
        let read_len = if p.max_len == 0 { 0 } else if rng.chance(1, 10) { 0 } else { 1 + rng.usize_below(p.max_len) };
        let read_len = if p.cram_safe && read_len == 0 { 1 + rng.usize_below(p.max_len.max(1)) } else { read_len };
        let name = gen_name(&mut rng, p.long_fields);
        let name = if p.cram_safe && name == "*" { "q".to_string() } else { name };
        let mut flag: u32 = 0;
        let (rname, pos, mapq, cigar, seq): (String, i64, u32, String, Vec<u8>);
        if mapped {
            let ri = rng.usize_below(refs.len());
            let (cg, span) = gen_cigar(&mut rng, read_len, p.cram_safe);
            let rlen = refs[ri].1.len();
            let max_start = rlen.saturating_sub(span).max(1);
            let start = 1 + rng.usize_below(max_start);
            if p.cram_safe {
                // derive the read from the reference so that the CRAM encoder's feature
                // extraction has something consistent to work with
                let mut s = Vec::with_capacity(read_len);
                let mut rp = start - 1;
                let mut num = String::new();
                for ch in cg.chars() {
                    if ch.is_ascii_digit() {
                        num.push(ch);
                        continue;
                    }
                    let n: usize = num.parse().unwrap();
                    num.clear();
                    match ch {
                        'M' => {
                            for _ in 0..n {
                                let b = refs[ri].1.get(rp).copied().unwrap_or(b'N');
                                s.push(if rng.chance(1, 12) { *rng.pick(BASES4) } else { b });
                                rp += 1;
                            }
                        }
                        'I' | 'S' => {
                            for _ in 0..n {
                                s.push(*rng.pick(BASES4));
                            }
                        }
                        'D' | 'N' => rp += n,
                        _ => {}
                    }
                }
                seq = s;
            } else {
                let alpha: &[u8] = if rng.chance(1, 5) { BASES16 } else { BASES4 };
                seq = (0..read_len).map(|_| *rng.pick(alpha)).collect();
            }
            rname = refs[ri].0.clone();
            pos = start as i64;
            mapq = if rng.chance(1, 10) { 255 } else { rng.below(61) as u32 };
            cigar = cg;
            if rng.bool() {
                flag |= 0x10;
            }
            recs.push((ri, pos, String::new()));
        } else {
            flag |= 0x4;
            rname = "*".into();
            pos = 0;
            mapq = if p.cram_safe { 0 } else { *rng.pick(&[0u32, 255]) };
            cigar = "*".into();
            let alpha: &[u8] = if p.cram_safe || rng.chance(4, 5) { BASES4 } else { BASES16 };
            seq = if rng.chance(1, 5) {
                // homopolymer / poly-N read
                let b = *rng.pick(b"ANTG");
                vec![b; read_len]
            } else {
                (0..read_len).map(|_| *rng.pick(alpha)).collect()
            };
            recs.push((usize::MAX, 0, String::new()));
        }
        // mate fields
        let (rnext, pnext, tlen): (String, i64, i64) = if !p.cram_safe && rng.chance(1, 3) && !refs.is_empty() {
            flag |= 0x1 | if rng.bool() { 0x40 } else { 0x80 };
            if rng.bool() {
                flag |= 0x20;
            }
            let mi = rng.usize_below(refs.len());
            let mname = if refs[mi].0 == rname { "=".to_string() } else { refs[mi].0.clone() };
            (mname, 1 + rng.below(refs[mi].1.len() as u64) as i64, rng.irange(-1000, 1000))
        } else {
            ("*".into(), 0, 0)
        };
        if !p.cram_safe {
            if rng.chance(1, 10) {
                flag |= 0x100;
            }
            if rng.chance(1, 12) {
                flag |= 0x200;
            }
            if rng.chance(1, 12) {
                flag |= 0x400;
            }
            if rng.chance(1, 14) {
                flag |= 0x800;
            }
        }
        let qual: String = if seq.is_empty() || (!p.cram_safe && rng.chance(1, 6)) {
            "*".into()
        } else {
            // a quarter of the reads carry one quality value throughout (binned / capped qualities:
            // long runs, which DEFLATE turns into runs of zero bits)
            let mut q: String = if rng.chance(1, 4) {
                let c = *rng.pick(b"IF#5") as char;
                (0..seq.len()).map(|_| c).collect()
            } else {
                (0..seq.len()).map(|_| (b'!' + rng.below(60) as u8) as char).collect()
            };
            // a quality string that is exactly "*" means "missing"
            if q == "*" {
                q = "+".into();
            }
            q
        };
        let seq_s = if seq.is_empty() { "*".to_string() } else { String::from_utf8(seq).unwrap() };
        let mut line = format!(
            "{name}\t{flag}\t{rname}\t{pos}\t{mapq}\t{cigar}\t{rnext}\t{pnext}\t{tlen}\t{seq_s}\t{qual}"
        );
        if p.aux {
            gen_aux(&mut rng, &mut line, p.long_fields, p.cram_safe);
        }
        if n_rg > 0 && rng.chance(1, 2) && !line.contains("\tRG:") {
            line.push_str(&format!("\tRG:Z:rg{}", rng.usize_below(n_rg)));
        }
        recs.last_mut().unwrap().2 = line;
    }
    if p.long_read && !p.cram_safe {
        let n = 70_000 + rng.usize_below(130_000);
        let at = rng.usize_below(recs.len() + 1);
        let (b, q) = (*rng.pick(b"ATN") as char, *rng.pick(b"I#5") as char);
        let line = format!("longread\t4\t*\t0\t0\t*\t*\t0\t0\t{}\t{}", b.to_string().repeat(n), q.to_string().repeat(n));
        recs.insert(at, (usize::MAX, 0, line));
    }
    if p.sorted {
        // coordinate order: by (ref index, pos); unmapped (usize::MAX) last; stable
        recs.sort_by_key(|r| (r.0, r.1));
    }
    SamModel {
        header,
        records: recs.into_iter().map(|r| r.2).collect(),
        refs,
    }
}
