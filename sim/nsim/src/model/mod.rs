//! Reference models and independent parsers.
pub mod bgzf;
