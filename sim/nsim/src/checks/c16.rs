//! C16 — async readers and writers behave exactly like their synchronous counterparts, under every
//! poll schedule of the underlying AsyncRead/AsyncWrite (async-sim).

use std::io::SeekFrom;
use std::num::NonZero;
use std::sync::{Arc, Mutex};

use noodles_bgzf::{self as bgzf, VirtualPosition};
use serde::{Deserialize, Serialize};
use serde_json::{Value, json};
use tokio::io::{AsyncBufReadExt, AsyncReadExt, AsyncWriteExt};

use super::c01::{self, Op, plan_hash};
use super::c02::{self, Layout, ROp};
use crate::{
    aexec,
    fmt::{
        End, Source, aio as faio, clip, first_diff,
        kinds::{self, FileSpec},
    },
    genr::bytes::{CLASSES, Payload},
    kernel::{Check, Finding, Fnv, Rng, RunCtx, Stats, Tier, Violation, prng},
    model::bgzf::{Flat, walk},
    seams::aio::{AioCounters, AioPlan, Part, Pend, SharedAio, SimAsyncRead, SimAsyncWrite},
    seams::write::WritePlan,
};

pub struct C16;

#[derive(Clone, Debug, Serialize, Deserialize, PartialEq)]
pub enum AScenario {
    BgzfWriter {
        level: Option<u8>,
        payload: Payload,
        ops: Vec<Op>,
    },
    BgzfReader {
        layout: Layout,
        ops: Vec<ROp>,
    },
    /// async reader twin of a kind vs the sync reader on the same valid file
    Read { file: FileSpec, variant: u8 },
    /// async writer twin of a kind vs the sync writer for the same model
    Write { file: FileSpec },
    /// async query twin (index kinds: the companion data file is queried)
    Query { file: FileSpec },
}

#[derive(Clone, Debug, Serialize, Deserialize)]
pub struct Plan {
    pub kind: String,
    pub scenario: AScenario,
    pub aio: AioPlan,
    /// bgzf async worker count 1..=8
    pub workers: usize,
}

const POLL_BUDGET_FACTOR: u64 = 50;

pub fn gen_aio(rng: &mut Rng) -> AioPlan {
    AioPlan {
        pend: match rng.below(6) {
            0 => Pend::Never,
            1 => Pend::Prob { num: 1, den: 10 },
            2 | 3 => Pend::Prob { num: 1, den: 2 },
            _ => Pend::OnceBeforeEvery,
        },
        part: match rng.below(7) {
            0 => Part::Full,
            1 => Part::One,
            2 => Part::Random { max: 1 + rng.usize_below(7) },
            3 => Part::Random { max: 1 + rng.usize_below(300) },
            4 => Part::Random { max: 1 + rng.usize_below(70_000) },
            _ => Part::Sparse { one_in: 1 + rng.below(6) },
        },
        seed: rng.next_u64(),
        max_gate_delay: *rng.pick(&[0u32, 1, 3, 8, 8]),
    }
}

fn v(component: &str, class: &str, witness: &str, msg: String) -> Violation {
    Violation::new(component, class, witness, msg)
}

async fn bgzf_write_history(level: Option<u8>, workers: usize, data: &[u8], ops: &[Op], sink: SimAsyncWrite) -> Result<usize, String> {
    let mut b = bgzf::r#async::io::writer::Builder::default().set_worker_count(NonZero::new(workers.max(1)).unwrap());
    if let Some(l) = level {
        b = b.set_compression_level(bgzf::io::writer::CompressionLevel::new(l).ok_or("level")?);
    }
    let mut w = b.build_from_writer(sink);
    let mut cur = 0usize;
    for (i, op) in ops.iter().enumerate() {
        match op {
            Op::Write { len } => {
                let len = (*len).min(data.len() - cur);
                let n = w.write(&data[cur..cur + len]).await.map_err(|e| format!("op {i} write: {e}"))?;
                if n > len || (n == 0 && len > 0) {
                    return Err(format!("op {i}: write({len}) returned {n}"));
                }
                cur += n;
            }
            Op::WriteAll { len } => {
                let len = (*len).min(data.len() - cur);
                w.write_all(&data[cur..cur + len]).await.map_err(|e| format!("op {i} write_all: {e}"))?;
                cur += len;
            }
            Op::Flush | Op::TryFinish => w.flush().await.map_err(|e| format!("op {i} flush: {e}"))?,
            Op::Tell => {}
        }
    }
    w.shutdown().await.map_err(|e| format!("shutdown: {e}"))?;
    Ok(cur)
}

type HErr = (String, String, String);

fn fail(c: &str, w: &str, m: String) -> HErr {
    (c.into(), w.into(), m)
}

/// The C02 history oracle against the async BGZF reader.
async fn bgzf_read_history(
    r: &mut bgzf::r#async::io::Reader<SimAsyncRead>,
    flat: &Flat,
    index: &bgzf::gzi::Index,
    ops: &[ROp],
    mut reported: Vec<u64>,
    st: &mut c02::HistoryStats,
) -> Result<(), HErr> {
    let data = &flat.data;
    let len = flat.len();
    let mut cur = 0u64;
    let mut known = true;
    let mut window: Option<usize> = None;
    let mut last_vp: Option<u64> = None;
    let check = |r: &bgzf::r#async::io::Reader<SimAsyncRead>, cur: u64, last: &mut Option<u64>, what: &str| -> Result<(), HErr> {
        let vp = u64::from(r.virtual_position());
        let d = flat.denote(vp >> 16, (vp & 0xffff) as u16);
        if d != Some(cur) {
            return Err(fail("position-mismatch", &format!("after-{what}"), format!("virtual_position() = ({}, {}) denotes {d:?}, model cursor is {cur}", vp >> 16, vp & 0xffff)));
        }
        if let Some(p) = *last {
            if vp < p {
                return Err(fail("position-decreased", &format!("after-{what}"), format!("virtual position went from {p} to {vp} without a seek")));
            }
        }
        *last = Some(vp);
        Ok(())
    };
    check(r, cur, &mut last_vp, "initial")?;
    reported.push(u64::from(r.virtual_position()));
    let mut buf = Vec::new();
    for (i, op) in ops.iter().enumerate() {
        if !known && !matches!(op, ROp::Seek { .. } | ROp::SeekU { .. } | ROp::SeekReported { .. }) {
            continue;
        }
        let mut win_next = None;
        let what;
        match op {
            ROp::Read { n } => {
                what = "read";
                buf.clear();
                buf.resize(*n, 0xAA);
                let k = r.read(&mut buf).await.map_err(|e| fail("unexpected-error", "read", format!("op {i} read({n}) at {cur}: {e}")))?;
                if k > *n {
                    return Err(fail("read-overrun", "read", format!("op {i}: read({n}) returned {k}")));
                }
                if k == 0 && *n > 0 && cur < len {
                    return Err(fail("premature-eof", "read", format!("op {i}: read({n}) returned 0 at offset {cur} of {len}")));
                }
                cmp(&buf[..k], data, cur, i, "read")?;
                cur += k as u64;
                st.bytes_checked += k as u64;
            }
            ROp::ReadExact { n } => {
                what = "read_exact";
                buf.clear();
                buf.resize(*n, 0xAA);
                let fits = cur + *n as u64 <= len;
                match r.read_exact(&mut buf).await {
                    Ok(_) => {
                        if !fits {
                            return Err(fail("fabricated-data", "read_exact-past-end", format!("op {i}: read_exact({n}) succeeded at {cur} of {len}")));
                        }
                        cmp(&buf, data, cur, i, "read_exact")?;
                        cur += *n as u64;
                        st.read_exact_fast += 1;
                    }
                    Err(e) => {
                        if fits {
                            return Err(fail("unexpected-error", "read_exact", format!("op {i}: read_exact({n}) at {cur} of {len}: {e}")));
                        }
                        known = false;
                        st.read_exact_past_end += 1;
                    }
                }
            }
            ROp::FillBuf => {
                what = "fill_buf";
                let w = r.fill_buf().await.map_err(|e| fail("unexpected-error", "fill_buf", format!("op {i} fill_buf at {cur}: {e}")))?;
                let wl = w.len();
                if wl == 0 && cur < len {
                    return Err(fail("premature-eof", "fill_buf", format!("op {i}: empty window at offset {cur} of {len}")));
                }
                let w = w.to_vec();
                cmp(&w, data, cur, i, "fill_buf")?;
                win_next = Some(wl);
            }
            ROp::Consume { n } => {
                what = "consume";
                let Some(wl) = window else { continue };
                let amt = (*n).min(wl);
                r.consume(amt);
                cur += amt as u64;
            }
            ROp::Seek { .. } | ROp::SeekReported { .. } => {
                what = "seek";
                let (tvp, toff) = match op {
                    ROp::Seek { off, which } => {
                        let off = if *off == u64::MAX { len } else { off % (len + 1) };
                        let sp = flat.spellings(off);
                        let (c, u) = sp[*which as usize % sp.len()];
                        ((c << 16) | u as u64, off)
                    }
                    ROp::SeekReported { k } => {
                        let vp = reported[*k % reported.len()];
                        let off = flat.denote(vp >> 16, (vp & 0xffff) as u16).ok_or_else(|| fail("harness", "undenotable", format!("{vp}")))?;
                        (vp, off)
                    }
                    _ => unreachable!(),
                };
                if tvp >> 16 == flat.file_len {
                    st.seek_to_end_from_nonempty_block += 1;
                }
                // every other seek goes through poll_seek, the (doc-hidden, public) entry point the
                // csi/bam/bcf/vcf async query streams use
                let got = if i % 2 == 1 {
                    st.poll_seeks += 1;
                    let mut rr = &mut *r;
                    std::future::poll_fn(|cx| std::pin::Pin::new(&mut rr).poll_seek(cx, VirtualPosition::from(tvp))).await
                } else {
                    r.seek(VirtualPosition::from(tvp)).await
                }
                .map_err(|e| fail("unexpected-error", "seek", format!("op {i}: seek({}, {}): {e}", tvp >> 16, tvp & 0xffff)))?;
                if u64::from(got) != tvp {
                    return Err(fail("seek-result", "seek", format!("op {i}: seek({tvp}) returned {}", u64::from(got))));
                }
                cur = toff;
                known = true;
                last_vp = None;
                st.seeks += 1;
            }
            ROp::SeekU { off } => {
                what = "seek-by-uncompressed";
                let mut off = off % (len + 1);
                if off == len && flat.members.last().is_some_and(|m| m.ulen > u16::MAX as u64) {
                    off = len - 1;
                }
                let got = r.seek_by_uncompressed_position(index, off).await.map_err(|e| fail("unexpected-error", "seek-by-uncompressed", format!("op {i}: {off}: {e}")))?;
                if got != off {
                    return Err(fail("seek-result", "seek-by-uncompressed", format!("op {i}: returned {got} for {off}")));
                }
                cur = off;
                known = true;
                last_vp = None;
                st.seeks += 1;
                st.seeks_u += 1;
            }
        }
        window = win_next;
        if known {
            check(r, cur, &mut last_vp, what).map_err(|(c, w, m)| (c, w, format!("op {i} ({op:?}): {m}")))?;
            reported.push(u64::from(r.virtual_position()));
        }
        st.ops_done += 1;
    }
    let _ = SeekFrom::Start(0);
    Ok(())
}

fn cmp(got: &[u8], data: &[u8], cur: u64, i: usize, what: &str) -> Result<(), HErr> {
    let c = cur as usize;
    if c + got.len() > data.len() {
        return Err(fail("fabricated-data", what, format!("op {i}: {what} returned {} bytes at offset {cur}, stream has {}", got.len(), data.len())));
    }
    if got != &data[c..c + got.len()] {
        let at = got.iter().zip(&data[c..]).position(|(a, b)| a != b).unwrap();
        return Err(fail("wrong-bytes", what, format!("op {i}: {what} at offset {cur}: byte {at} differs")));
    }
    Ok(())
}

fn record_aio(stats: &mut Stats, c: &AioCounters, budget: u64) {
    stats.evaluations += 1;
    stats.steps += c.polls + c.gate_polls;
    stats.fault("A_PENDING", c.pending);
    stats.fault("A_PARTIAL", c.partial);
    stats.fault("A_DELAY", c.gate_polls.saturating_sub(c.gates));
    stats.set("distinct_poll_result_sequences", c.seq_hash);
    let mut h = Fnv::new();
    for j in &c.job_order {
        h.u64(*j as u64);
    }
    stats.set("distinct_job_completion_orders", h.get());
    let in_order = c.job_order.windows(2).all(|w| w[0] < w[1]);
    stats.probe_if("job_completion_order_differs_from_spawn_order", !in_order);
    stats.probe_if("pending_from_flush_or_shutdown", c.flushes + c.shutdowns > 0 && c.pending > 0);
    let e = stats.probes.entry("max_polls_over_budget_permille".into()).or_default();
    *e = (*e).max(c.polls * 1000 / budget.max(1));
}

impl C16 {
    fn run(&self, p: &Plan, stats: &mut Stats) -> Option<Violation> {
        let counters: SharedAio = Arc::new(Mutex::new(AioCounters::default()));
        // generous poll budget (liveness: progress within a bounded number of polls): one byte at a
        // time with a Pending before every completion costs 2 polls per byte moved, plus gates; the
        // file kinds add 16 (queries: 256, they re-read) polls per byte of their file
        counters.lock().unwrap().budget = 40_000_000;
        let widen = |per_byte: u64, len: usize| counters.lock().unwrap().budget = 40_000_000 + per_byte * len as u64;
        match &p.scenario {
            AScenario::BgzfWriter { level, payload, ops } => {
                let comp = "bgzf::async::io::Writer";
                let data = payload.bytes();
                let ops = &c01::without_try_finish(ops);
                let sink = SimAsyncWrite::new(p.aio.clone(), counters.clone());
                let s2 = sink.clone();
                let r = aexec::run(&p.aio, counters.clone(), || bgzf_write_history(*level, p.workers, &data, ops, s2));
                let c = counters.lock().unwrap().clone();
                let budget = POLL_BUDGET_FACTOR * (ops.len() as u64 + data.len() as u64 / 60_000 + 8) * 70_000;
                record_aio(stats, &c, budget);
                let cur = match r {
                    Err(pn) => return Some(v(comp, "panic", &pn.witness(), format!("panic at {}: {}", pn.location, pn.message))),
                    Ok(Err(e)) => return Some(v(comp, "unexpected-error", "fault-free-sink", e)),
                    Ok(Ok(cur)) => cur,
                };
                let model = &data[..cur];
                let out = sink.data();
                let w = match walk(&out) {
                    Ok(w) => w,
                    Err(e) => return Some(v(comp, "malformed-output", "walker-reject", e)),
                };
                if !w.ends_with_eof_marker {
                    return Some(v(comp, "malformed-output", "missing-eof-marker", format!("the {} byte file does not end with the EOF marker after shutdown()", out.len())));
                }
                if w.data != model {
                    return Some(v(comp, "content-mismatch", "independent-inflate", format!("async output inflates to {} bytes, {} were written", w.data.len(), model.len())));
                }
                // sync twin for the same calls
                let sync = c01::run_history(*level, &data, ops, c01::End::Finish, WritePlan::plain()).map(|r| r.sink);
                match sync {
                    Ok(sb) => {
                        let sw = walk(&sb).map(|w| w.data).unwrap_or_default();
                        if sw != w.data {
                            return Some(v(comp, "async-sync-mismatch", "decoded-content", "decode(async bytes) != decode(sync bytes)".into()));
                        }
                        stats.probe_if("bgzf_async_bytes_identical_to_sync", sb == out);
                    }
                    Err(_) => {
                        // the sync twin itself fails for these calls: nothing to compare with
                        stats.probe("workload_unbuildable", 1);
                    }
                }
                if !sink.state.lock().unwrap().shutdown {
                    return Some(v(comp, "shutdown-not-propagated", "inner-shutdown", "shutdown() returned Ok but the inner sink was not shut down".into()));
                }
                stats.kind("bgzf-async-writer");
                None
            }
            AScenario::BgzfReader { layout, ops } => {
                let comp = "bgzf::async::io::Reader";
                let Ok(built) = c02::build_layout(layout) else {
                    stats.probe("workload_unbuildable", 1);
                    return None;
                };
                let index = c02::make_index(&built.flat, false).expect("gzi");
                let file = Arc::new(built.file.clone());
                let mut st = c02::HistoryStats::default();
                let tells: Vec<u64> = built.tells.iter().map(|t| t.0).collect();
                let r = {
                    let st = &mut st;
                    let flat = &built.flat;
                    let index = &index;
                    let src = SimAsyncRead::new(file, p.aio.clone(), counters.clone());
                    let workers = p.workers;
                    aexec::run(&p.aio, counters.clone(), || async move {
                        let mut r = bgzf::r#async::io::reader::Builder::default()
                            .set_worker_count(NonZero::new(workers.max(1)).unwrap())
                            .build_from_reader(src);
                        bgzf_read_history(&mut r, flat, index, ops, tells, st).await
                    })
                };
                let c = counters.lock().unwrap().clone();
                record_aio(stats, &c, POLL_BUDGET_FACTOR * (ops.len() as u64 + built.flat.members.len() as u64 + 8) * 70_000);
                c02::record_history_stats(stats, &st);
                stats.kind("bgzf-async-reader");
                match r {
                    Err(pn) => Some(v(comp, "panic", &pn.witness(), format!("panic at {}: {}", pn.location, pn.message))),
                    Ok(Err((c, w, m))) => Some(v(comp, &c, &w, m)),
                    Ok(Ok(())) => None,
                }
            }
            AScenario::Read { file, variant } => {
                let Ok(made) = kinds::make(file) else {
                    stats.probe("workload_unbuildable", 1);
                    return None;
                };
                let comp = format!("{}:async-{}", file.kind.name(), kinds::variant_name(file.kind, *variant));
                if !faio::has_async_reader(file.kind, *variant) {
                    stats.probe("kinds_without_async_reader_skipped", 1);
                    return None;
                }
                widen(16, made.bytes.len());
                let o0 = kinds::read(file.kind, *variant, Source::plain(made.bytes.clone()));
                let src = SimAsyncRead::new(made.bytes.clone(), p.aio.clone(), counters.clone());
                let r = aexec::run(&p.aio, counters.clone(), || faio::aread(file.kind, *variant, src, p.workers));
                let c = counters.lock().unwrap().clone();
                record_aio(stats, &c, POLL_BUDGET_FACTOR * (made.bytes.len() as u64 + 64) * 8);
                stats.kind(&format!("{}:async-read", file.kind.name()));
                let o1 = match r {
                    Err(pn) => return Some(v(&comp, "panic", &pn.witness(), format!("panic at {}: {}", pn.location, pn.message))),
                    Ok(o) => o,
                };
                if o0.items != o1.items || o0.bytes != o1.bytes || end_class(&o0.end) != end_class(&o1.end) {
                    let i = first_diff(&o0.items, &o1.items);
                    return Some(v(
                        &comp,
                        "async-sync-mismatch",
                        "reader-observation",
                        match i {
                            Some(i) => format!("item {i}: sync {} / async {}; ends: sync {:?} / async {:?}", o0.items.get(i).map(|s| clip(s)).unwrap_or_else(|| "<none>".into()), o1.items.get(i).map(|s| clip(s)).unwrap_or_else(|| "<none>".into()), o0.end, o1.end),
                            None => format!("same {} items; ends: sync {:?} / async {:?}", o0.items.len(), o0.end, o1.end),
                        },
                    ));
                }
                None
            }
            AScenario::Write { file } => {
                let Ok(made) = kinds::make(file) else {
                    stats.probe("workload_unbuildable", 1);
                    return None;
                };
                let comp = format!("{}:async-writer", file.kind.name());
                if !faio::has_async_writer(file.kind) {
                    stats.probe("kinds_without_async_writer_skipped", 1);
                    return None;
                }
                if !faio::async_writer_supports(&made.model) {
                    stats.probe("models_the_async_writer_cannot_be_configured_for_skipped", 1);
                    return None;
                }
                widen(16, made.bytes.len());
                // BAM writers, a third of the runs: an invalid record is offered somewhere in the
                // stream; both twins must refuse it and write the same file as without it
                let rejected_at = match (&made.model, file.kind) {
                    (kinds::Model::Align { parsed, .. }, kinds::Kind::Bam | kinds::Kind::BamRaw) if p.aio.seed % 3 == 0 && !parsed.records.is_empty() => (p.aio.seed / 3) as usize % parsed.records.len(),
                    _ => usize::MAX,
                };
                crate::fmt::align::REJECTED_RECORD_AT.store(rejected_at, std::sync::atomic::Ordering::Relaxed);
                struct Reset;
                impl Drop for Reset {
                    fn drop(&mut self) {
                        crate::fmt::align::REJECTED_RECORD_AT.store(usize::MAX, std::sync::atomic::Ordering::Relaxed);
                    }
                }
                let _reset = Reset;
                stats.probe_if("invalid_record_offered_mid_stream", rejected_at != usize::MAX);
                let sink = SimAsyncWrite::new(p.aio.clone(), counters.clone());
                let s2 = sink.clone();
                let r = crate::kernel::fresh_thread(|| aexec::run(&p.aio, counters.clone(), || faio::awrite(file.kind, &made.model, s2, p.workers)));
                let c = counters.lock().unwrap().clone();
                record_aio(stats, &c, POLL_BUDGET_FACTOR * (made.bytes.len() as u64 + 64) * 8);
                stats.kind(&format!("{}:async-write", file.kind.name()));
                match r {
                    Err(pn) => return Some(v(&comp, "panic", &pn.witness(), format!("panic at {}: {}", pn.location, pn.message))),
                    Ok(Err(e)) => return Some(v(&comp, "unexpected-error", "fault-free-sink", format!("async write protocol failed: {e}"))),
                    Ok(Ok(())) => {}
                }
                let out = Arc::new(sink.data());
                // sync twin output (fault-free Vec)
                let mut sync_bytes = Vec::new();
                if crate::kernel::fresh_thread(|| kinds::write_to(file.kind, &made.model, &mut sync_bytes)).is_err() {
                    stats.probe("workload_unbuildable", 1);
                    return None;
                }
                // decode both with the sync reader
                let oa = kinds::read(file.kind, 0, Source::plain(out.clone()));
                let os = kinds::read(file.kind, 0, Source::plain(Arc::new(sync_bytes.clone())));
                let (ia, is) = (kinds::content_items(&oa.items), kinds::content_items(&os.items));
                if ia != is || oa.bytes != os.bytes || oa.end != End::Eof {
                    let i = first_diff(&ia, &is);
                    return Some(v(
                        &comp,
                        "async-sync-mismatch",
                        "decoded-output",
                        format!("decode(async output) != decode(sync output): first difference at item {i:?}; async end {:?}", oa.end),
                    ));
                }
                // CRAM: the container headers' record counts, global record counters and base counts
                // (read by the harness' own walker) are part of what the files decode to
                if file.kind == kinds::Kind::Cram {
                    let hdr = |b: &[u8]| crate::fmt::cram::containers(b).map(|cs| cs.iter().map(|c| (c.n_records, c.record_counter, c.bases)).collect::<Vec<_>>());
                    match (hdr(&out), hdr(&sync_bytes)) {
                        (Ok(a), Ok(s)) if a != s => {
                            return Some(v(&comp, "async-sync-mismatch", "container-headers", format!("(records, record counter, bases) per container: async {a:?} / sync {s:?}")));
                        }
                        (Err(e), Ok(_)) => return Some(v(&comp, "malformed-output", "cram-walker-reject", e)),
                        _ => {}
                    }
                    stats.probe("cram_container_headers_compared", 1);
                }
                if !file.kind.is_bgzf_container() && !faio::compressed_kind(file.kind) {
                    if *out != sync_bytes {
                        let at = out.iter().zip(&sync_bytes).position(|(a, b)| a != b).unwrap_or(out.len().min(sync_bytes.len()));
                        return Some(v(&comp, "async-sync-mismatch", "bytes", format!("uncompressed format: async output ({} bytes) differs from sync output ({} bytes) at offset {at}", out.len(), sync_bytes.len())));
                    }
                    stats.probe("uncompressed_output_byte_identical", 1);
                } else {
                    stats.probe_if("compressed_output_byte_identical", *out == sync_bytes);
                }
                None
            }
            AScenario::Query { file } => {
                let Ok(made) = kinds::make(file) else {
                    stats.probe("workload_unbuildable", 1);
                    return None;
                };
                let Some((dk, data)) = made.companion.clone() else { return None };
                let comp = format!("{}:async-query({})", file.kind.name(), dk.name());
                if !faio::has_async_query(file.kind, dk) {
                    stats.probe("kinds_without_async_query_skipped", 1);
                    return None;
                }
                let o0 = crate::fmt::observe(|o| crate::fmt::query::query(file.kind, &made.bytes, dk, data.clone(), &mut o.items));
                widen(256, data.len());
                let src = SimAsyncRead::new(data.clone(), p.aio.clone(), counters.clone());
                let idx_bytes = made.bytes.clone();
                let r = aexec::run(&p.aio, counters.clone(), || faio::aquery(file.kind, idx_bytes, dk, src, p.workers));
                let c = counters.lock().unwrap().clone();
                record_aio(stats, &c, POLL_BUDGET_FACTOR * (data.len() as u64 + 64) * 64);
                stats.kind(&format!("{}:async-query", file.kind.name()));
                let o1 = match r {
                    Err(pn) => return Some(v(&comp, "panic", &pn.witness(), format!("panic at {}: {}", pn.location, pn.message))),
                    Ok(o) => o,
                };
                if o0.items != o1.items || end_class(&o0.end) != end_class(&o1.end) {
                    let i = first_diff(&o0.items, &o1.items);
                    return Some(v(&comp, "async-sync-mismatch", "query-results", format!("first difference at item {i:?}: sync {:?} / async {:?}; ends {:?} / {:?}", i.and_then(|i| o0.items.get(i)).map(|s| clip(s)), i.and_then(|i| o1.items.get(i)).map(|s| clip(s)), o0.end, o1.end)));
                }
                None
            }
        }
    }
}

fn end_class(e: &End) -> String {
    match e {
        End::Eof => "eof".into(),
        End::Err { kind, .. } => format!("err:{kind}"),
        End::Panic { witness, .. } => format!("panic:{witness}"),
    }
}

impl Check for C16 {
    fn id(&self) -> &'static str {
        "C16"
    }
    fn level(&self) -> &'static str {
        "exploration"
    }
    fn announce(&self) -> bool {
        true
    }
    fn watchdog_s(&self) -> u64 {
        // one query scenario over a large CRAM under 1-byte-ish partial reads and p=1/2 Pending
        // legitimately takes ~10 s
        120
    }
    fn n_cases(&self, tier: Tier) -> u64 {
        match tier {
            Tier::Quick => 12_000,
            Tier::Thorough => 1_000_000,
        }
    }
    fn plan(&self, master: u64, idx: u64, _tier: Tier) -> Value {
        let mut rng = Rng::new(prng::derive(master, "C16", idx));
        let aio = gen_aio(&mut rng);
        let workers = 1 + rng.usize_below(8);
        let (kind, scenario) = match idx % 8 {
            0 => {
                let ops = c01::gen_history(&mut rng, 25, 400_000);
                (
                    "bgzf-async-writer".to_string(),
                    AScenario::BgzfWriter {
                        level: match rng.below(4) {
                            0 => None,
                            _ => Some(rng.below(10) as u8),
                        },
                        payload: Payload {
                            class: *rng.pick(&CLASSES),
                            len: c01::total_len(&ops),
                            seed: rng.next_u64(),
                        },
                        ops,
                    },
                )
            }
            1 | 2 => {
                let layout = if rng.chance(1, 4) {
                    let ops = c01::gen_history(&mut rng, 10, 200_000);
                    Layout::Writer {
                        level: Some(rng.below(10) as u8),
                        payload: Payload {
                            class: *rng.pick(&CLASSES),
                            len: c01::total_len(&ops),
                            seed: rng.next_u64(),
                        },
                        ops,
                        end: c01::End::Finish,
                    }
                } else {
                    c02::gen_built_layout(&mut rng, 14)
                };
                (
                    "bgzf-async-reader".to_string(),
                    AScenario::BgzfReader {
                        layout,
                        ops: c02::gen_reader_ops(&mut rng, 40, true),
                    },
                )
            }
            n => {
                let k = faio::ASYNC_KINDS[rng.usize_below(faio::ASYNC_KINDS.len())];
                let size_class = *rng.pick(&[0u8, 1, 1, 2, 2, 3]);
                let file = FileSpec {
                    kind: k,
                    size_class,
                    seed: rng.next_u64(),
                };
                match n {
                    3 | 4 | 5 => (format!("{}:async-read", k.name()), AScenario::Read { file, variant: rng.below(k.variants() as u64) as u8 }),
                    6 => (format!("{}:async-write", k.name()), AScenario::Write { file }),
                    _ => {
                        let ik = faio::QUERY_INDEX_KINDS[rng.usize_below(faio::QUERY_INDEX_KINDS.len())];
                        (format!("{}:async-query", ik.name()), AScenario::Query { file: FileSpec { kind: ik, size_class: size_class.max(1), seed: file.seed } })
                    }
                }
            }
        };
        serde_json::to_value(Plan {
            kind,
            scenario,
            aio,
            workers,
        })
        .unwrap()
    }
    fn execute(&self, plan: &Value, ctx: &mut RunCtx) -> Vec<Finding> {
        let p: Plan = serde_json::from_value(plan.clone()).expect("bad C16 plan");
        if !ctx.begin_sub(|| plan.clone()) {
            return Vec::new();
        }
        let r = self.run(&p, ctx.stats);
        if p.aio.is_adversarial() {
            ctx.stats.nontrivial(plan_hash(&p));
        }
        if ctx.stats.want_sample() && matches!(p.scenario, AScenario::BgzfReader { .. }) {
            ctx.stats.sample(|| json!({"plan": p}));
        }
        match r {
            Some(violation) => vec![Finding {
                violation,
                plan: plan.clone(),
            }],
            None => Vec::new(),
        }
    }
    fn shrink(&self, plan: &Value) -> Vec<Value> {
        let Ok(p) = serde_json::from_value::<Plan>(plan.clone()) else {
            return Vec::new();
        };
        let mut out = Vec::new();
        let mut push = |q: Plan| out.push(serde_json::to_value(q).unwrap());
        // poll schedule towards the trivial one
        if p.aio.max_gate_delay > 0 {
            let mut q = p.clone();
            q.aio.max_gate_delay = 0;
            push(q);
        }
        if p.aio.pend != Pend::Never {
            let mut q = p.clone();
            q.aio.pend = Pend::Never;
            push(q);
        }
        if p.aio.part != Part::Full {
            let mut q = p.clone();
            q.aio.part = Part::Full;
            push(q);
        }
        if p.workers > 1 {
            let mut q = p.clone();
            q.workers = 1;
            push(q);
        }
        match &p.scenario {
            AScenario::BgzfReader { layout, ops } => {
                for o in c02::shrink_ops(ops).into_iter().take(60) {
                    let mut q = p.clone();
                    q.scenario = AScenario::BgzfReader {
                        layout: layout.clone(),
                        ops: o,
                    };
                    push(q);
                }
            }
            AScenario::BgzfWriter { level, payload, ops } => {
                for i in 0..ops.len() {
                    let mut o = ops.clone();
                    o.remove(i);
                    let mut q = p.clone();
                    q.scenario = AScenario::BgzfWriter {
                        level: *level,
                        payload: Payload { len: c01::total_len(&o), ..payload.clone() },
                        ops: o,
                    };
                    push(q);
                }
            }
            AScenario::Read { file, variant } => {
                for sc in 0..file.size_class {
                    let mut q = p.clone();
                    q.scenario = AScenario::Read {
                        file: FileSpec { size_class: sc, ..file.clone() },
                        variant: *variant,
                    };
                    push(q);
                }
            }
            _ => {}
        }
        out
    }
    fn rule(&self) -> String {
        "one evaluation = one scenario under one poll schedule inside async-sim (tokio current_thread runtime, no drivers): (1) BGZF async writer: a write/flush history ended by shutdown() — output passes the independent walker, ends with the EOF marker, decode(async bytes) == decode(sync bytes for the same calls) == model, inner shutdown propagated; (2) BGZF async reader: the C02 history oracle (read, read_exact, fill_buf/consume, seek to any spelling incl. end of stream and empty blocks, seek_by_uncompressed_position) against the flat model; (3) every format with an async reader: observation (headers, records, virtual positions, errors) equal to the sync reader's on the same generated valid file; (4) every format with an async writer: decode(async output) == decode(sync output), byte identity for uncompressed formats; (5) async BAM/BCF/VCF queries equal the sync queries. Poll schedule: Pending probability {0, 0.1, 0.5, once-before-every-completion} incl. poll_flush/poll_shutdown/poll_complete, partial transfer modes (1 byte, random small/large, sparse), blocking-job gate delays 0..8 polls (any completion order inside the try_buffered window), worker count 1..8. distinct_nontrivial = distinct plans with an adversarial poll schedule".into()
    }
    fn assumptions(&self) -> Vec<String> {
        vec![
            "the former spawn_blocking jobs run as gated tasks on the same current-thread runtime (hook H2); their bodies are the real inflate/deflate code".into(),
            "cancellation safety is not in the statement and is not checked".into(),
            "a missed wake-up parks the driverless runtime for good and is reported by the worker watchdog as a hang of the announced case".into(),
        ]
    }
    fn components(&self) -> Value {
        json!({"real": ["noodles async readers/writers, tokio runtime/scheduler (current_thread), tokio-util codec, futures combinators, async-compression"], "stub": ["AsyncRead/AsyncWrite/AsyncSeek objects (seams::aio)", "tokio's blocking pool (jobs run as gated tasks on the same runtime)"]})
    }
    fn expected_probes(&self) -> Vec<&'static str> {
        vec![
            "job_completion_order_differs_from_spawn_order",
            "pending_from_flush_or_shutdown",
            "seek_to_end_of_stream_from_nonempty_block",
            "uncompressed_output_byte_identical",
        ]
    }
}
