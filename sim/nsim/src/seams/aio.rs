//! async-sim seams: `AsyncRead + AsyncSeek` source and `AsyncWrite` sink whose poll results —
//! `Pending` (after `wake_by_ref`), partial transfers — are decided by a plan, plus the gate
//! futures that decide when each (former) blocking job completes.

use std::{
    future::Future,
    io::{self, SeekFrom},
    pin::Pin,
    sync::{Arc, Mutex},
    task::{Context, Poll},
};

use serde::{Deserialize, Serialize};
use tokio::io::{AsyncRead, AsyncSeek, AsyncWrite, ReadBuf};

use crate::kernel::Rng;

#[derive(Clone, Debug, Serialize, Deserialize, PartialEq)]
pub enum Pend {
    Never,
    /// each poll returns Pending with probability num/den (never more than 3 in a row)
    Prob { num: u64, den: u64 },
    /// every operation returns Pending exactly once before it completes
    OnceBeforeEvery,
}

#[derive(Clone, Debug, Serialize, Deserialize, PartialEq)]
pub enum Part {
    Full,
    One,
    /// uniformly 1..=max bytes per completed poll
    Random { max: usize },
    /// mostly full; sometimes n-1, n/2, 1
    Sparse { one_in: u64 },
}

#[derive(Clone, Debug, Serialize, Deserialize, PartialEq)]
pub struct AioPlan {
    pub pend: Pend,
    pub part: Part,
    pub seed: u64,
    /// gate delays: each blocking job completes after 0..=max_gate_delay further polls
    pub max_gate_delay: u32,
}

impl AioPlan {
    pub fn plain() -> Self {
        AioPlan {
            pend: Pend::Never,
            part: Part::Full,
            seed: 0,
            max_gate_delay: 0,
        }
    }
    pub fn is_adversarial(&self) -> bool {
        self.pend != Pend::Never || self.part != Part::Full || self.max_gate_delay > 0
    }
}

#[derive(Default, Debug, Clone)]
pub struct AioCounters {
    pub polls: u64,
    pub pending: u64,
    pub partial: u64,
    pub seeks: u64,
    pub flushes: u64,
    pub shutdowns: u64,
    pub gates: u64,
    pub gate_polls: u64,
    /// hash of the sequence of poll results (distinct poll-result sequences measure)
    pub seq_hash: u64,
    /// order in which gated jobs were released
    pub job_order: Vec<u32>,
    /// poll budget (0 = unlimited): exceeding it is a livelock and panics inside the poll
    pub budget: u64,
}

pub type SharedAio = Arc<Mutex<AioCounters>>;

struct Adversary {
    plan: AioPlan,
    rng: Rng,
    consecutive: u32,
    armed: bool,
    counters: SharedAio,
}

impl Adversary {
    fn new(plan: AioPlan, salt: u64, counters: SharedAio) -> Self {
        let rng = Rng::new(plan.seed ^ salt);
        Self {
            plan,
            rng,
            consecutive: 0,
            armed: true,
            counters,
        }
    }

    /// Should this poll return Pending?
    fn pend(&mut self, cx: &mut Context<'_>, tag: u64) -> bool {
        let p = match self.plan.pend {
            Pend::Never => false,
            Pend::Prob { num, den } => self.consecutive < 3 && self.rng.below(den) < num,
            Pend::OnceBeforeEvery => self.armed,
        };
        let mut c = self.counters.lock().unwrap();
        c.polls += 1;
        if c.budget > 0 && c.polls > c.budget {
            let b = c.budget;
            drop(c);
            panic!("nsim: poll budget of {b} polls exceeded (livelock: the operation never completes although the source/sink keeps making progress)");
        }
        c.seq_hash = (c.seq_hash ^ (tag * 2 + p as u64)).wrapping_mul(0x0000_0100_0000_01b3);
        if p {
            c.pending += 1;
            self.consecutive += 1;
            self.armed = false;
            cx.waker().wake_by_ref();
        } else {
            self.consecutive = 0;
            self.armed = true;
        }
        p
    }

    fn grant(&mut self, n: usize) -> usize {
        if n <= 1 {
            return n;
        }
        let g = match self.plan.part {
            Part::Full => n,
            Part::One => 1,
            Part::Random { max } => 1 + self.rng.usize_below(max.max(1).min(n)),
            Part::Sparse { one_in } => {
                if self.rng.below(one_in.max(1)) == 0 {
                    match self.rng.below(3) {
                        0 => n - 1,
                        1 => (n / 2).max(1),
                        _ => 1,
                    }
                } else {
                    n
                }
            }
        };
        if g < n {
            self.counters.lock().unwrap().partial += 1;
        }
        g
    }
}

pub struct SimAsyncRead {
    data: Arc<Vec<u8>>,
    pos: usize,
    adv: Adversary,
    seek_to: Option<SeekFrom>,
}

impl SimAsyncRead {
    pub fn new(data: Arc<Vec<u8>>, plan: AioPlan, counters: SharedAio) -> Self {
        Self {
            data,
            pos: 0,
            adv: Adversary::new(plan, 0x5eed_0001, counters),
            seek_to: None,
        }
    }
}

impl AsyncRead for SimAsyncRead {
    fn poll_read(mut self: Pin<&mut Self>, cx: &mut Context<'_>, buf: &mut ReadBuf<'_>) -> Poll<io::Result<()>> {
        if self.adv.pend(cx, 1) {
            return Poll::Pending;
        }
        let rem = self.data.len().saturating_sub(self.pos);
        let want = rem.min(buf.remaining());
        let n = self.adv.grant(want);
        let p = self.pos;
        let data = self.data.clone();
        buf.put_slice(&data[p..p + n]);
        self.pos += n;
        Poll::Ready(Ok(()))
    }
}

impl AsyncSeek for SimAsyncRead {
    fn start_seek(mut self: Pin<&mut Self>, position: SeekFrom) -> io::Result<()> {
        self.seek_to = Some(position);
        Ok(())
    }

    fn poll_complete(mut self: Pin<&mut Self>, cx: &mut Context<'_>) -> Poll<io::Result<u64>> {
        // Pending both while a seek is in flight and when poll_complete is called to make sure that
        // none is (the AsyncSeek contract; a tokio::fs::File with an operation in flight does this)
        if self.adv.pend(cx, 2) {
            return Poll::Pending;
        }
        if let Some(p) = self.seek_to.take() {
            self.adv.counters.lock().unwrap().seeks += 1;
            let len = self.data.len() as i64;
            let new = match p {
                SeekFrom::Start(p) => p as i64,
                SeekFrom::End(d) => len + d,
                SeekFrom::Current(d) => self.pos as i64 + d,
            };
            if new < 0 {
                return Poll::Ready(Err(io::Error::new(io::ErrorKind::InvalidInput, "nsim: seek before start")));
            }
            self.pos = new as usize;
        }
        Poll::Ready(Ok(self.pos as u64))
    }
}

pub struct AsyncSinkState {
    /// bytes that reached the destination
    pub data: Vec<u8>,
    /// buffering sink (as tokio::io::BufWriter): accepted bytes reach `data` only when a flush or
    /// shutdown completes; what is still here at the end is lost
    pub buffered: bool,
    pub unflushed: Vec<u8>,
    /// writes after a completed shutdown: a strict sink (socket, pipe) fails them with BrokenPipe;
    /// a lenient one (file) accepts them
    pub strict: bool,
    pub writes_after_shutdown: u64,
    pub shutdown: bool,
    /// bytes were accepted since the last completed flush: only then may a flush be Pending (a
    /// sink with nothing to flush completes at once; otherwise an adversary that alternates
    /// Pending/Ready could starve callers that re-issue an idempotent flush on every poll)
    dirty: bool,
    shutdown_pended: bool,
}

#[derive(Clone)]
pub struct SimAsyncWrite {
    pub state: Arc<Mutex<AsyncSinkState>>,
    adv: Arc<Mutex<Adversary>>,
}

impl SimAsyncWrite {
    pub fn new(plan: AioPlan, counters: SharedAio) -> Self {
        Self {
            state: Arc::new(Mutex::new(AsyncSinkState {
                data: Vec::new(),
                // the sink's personality is part of the poll plan (plain plan: unbuffered, lenient)
                buffered: plan.is_adversarial() && plan.seed & 1 == 1,
                unflushed: Vec::new(),
                strict: plan.is_adversarial() && plan.seed & 2 == 2,
                writes_after_shutdown: 0,
                shutdown: false,
                dirty: false,
                shutdown_pended: false,
            })),
            adv: Arc::new(Mutex::new(Adversary::new(plan, 0x5eed_0002, counters))),
        }
    }
    pub fn data(&self) -> Vec<u8> {
        self.state.lock().unwrap().data.clone()
    }
}

impl AsyncWrite for SimAsyncWrite {
    fn poll_write(self: Pin<&mut Self>, cx: &mut Context<'_>, buf: &[u8]) -> Poll<io::Result<usize>> {
        let mut adv = self.adv.lock().unwrap();
        if adv.pend(cx, 3) {
            return Poll::Pending;
        }
        let n = adv.grant(buf.len());
        let mut st = self.state.lock().unwrap();
        if st.shutdown && !buf.is_empty() {
            st.writes_after_shutdown += 1;
            if st.strict {
                return Poll::Ready(Err(io::Error::new(io::ErrorKind::BrokenPipe, "nsim: write after shutdown")));
            }
        }
        if st.buffered {
            st.unflushed.extend_from_slice(&buf[..n]);
        } else {
            st.data.extend_from_slice(&buf[..n]);
        }
        st.dirty |= n > 0;
        Poll::Ready(Ok(n))
    }

    fn poll_flush(self: Pin<&mut Self>, cx: &mut Context<'_>) -> Poll<io::Result<()>> {
        let mut adv = self.adv.lock().unwrap();
        let dirty = self.state.lock().unwrap().dirty;
        if dirty && adv.pend(cx, 4) {
            return Poll::Pending;
        }
        adv.counters.lock().unwrap().flushes += 1;
        let mut st = self.state.lock().unwrap();
        st.dirty = false;
        let pending = std::mem::take(&mut st.unflushed);
        st.data.extend_from_slice(&pending);
        Poll::Ready(Ok(()))
    }

    fn poll_shutdown(self: Pin<&mut Self>, cx: &mut Context<'_>) -> Poll<io::Result<()>> {
        let mut adv = self.adv.lock().unwrap();
        let first = !std::mem::replace(&mut self.state.lock().unwrap().shutdown_pended, true);
        if first && adv.plan.pend != Pend::Never {
            // shutdown is Pending exactly once
            let mut c = adv.counters.lock().unwrap();
            c.polls += 1;
            c.pending += 1;
            drop(c);
            cx.waker().wake_by_ref();
            return Poll::Pending;
        }
        adv.counters.lock().unwrap().shutdowns += 1;
        let mut st = self.state.lock().unwrap();
        st.shutdown = true;
        st.dirty = false;
        let pending = std::mem::take(&mut st.unflushed);
        st.data.extend_from_slice(&pending);
        Poll::Ready(Ok(()))
    }
}

/// Completes after `0` further polls of itself.
pub struct Delay(pub u32, pub SharedAio);

impl Future for Delay {
    type Output = ();
    fn poll(mut self: Pin<&mut Self>, cx: &mut Context<'_>) -> Poll<()> {
        self.1.lock().unwrap().gate_polls += 1;
        if self.0 == 0 {
            Poll::Ready(())
        } else {
            self.0 -= 1;
            cx.waker().wake_by_ref();
            Poll::Pending
        }
    }
}

/// Installs the gate factory (hook H2) for the current thread: job i waits `delay_i` polls, drawn
/// from the plan's PRNG; the release order is recorded.
pub fn install_gates(plan: &AioPlan, counters: SharedAio) {
    let max = plan.max_gate_delay;
    let rng = Arc::new(Mutex::new(Rng::new(plan.seed ^ 0x6a7e)));
    let next_id = Arc::new(Mutex::new(0u32));
    noodles_bgzf::verif::set_gate(Some(Box::new(move || {
        let k = if max == 0 { 0 } else { rng.lock().unwrap().below(max as u64 + 1) as u32 };
        let id = {
            let mut n = next_id.lock().unwrap();
            *n += 1;
            *n
        };
        let c = counters.clone();
        c.lock().unwrap().gates += 1;
        let c2 = c.clone();
        Box::pin(async move {
            Delay(k, c2).await;
            c.lock().unwrap().job_order.push(id);
        })
    })));
}

pub fn remove_gates() {
    noodles_bgzf::verif::set_gate(None);
}
