//! Async twins of the reading / writing / query protocols of fmt::kinds and fmt::query (C16).
//! Each function must produce exactly the observation items of its sync counterpart.
//!
//! Coverage (noodles tree as pinned; "-" = the crate has no async API for it, so the `has_*`
//! predicates answer false and nothing is guessed):
//!
//! | kind     | async reader variants                         | async writer | async query (index -> data) |
//! |----------|-----------------------------------------------|--------------|------------------------------|
//! | bgzf     | read_to_end, read-777, fill_buf               | yes          | gzi -> bgzf (seek_by_uncompressed_position) |
//! | sam      | records, record_bufs                          | yes          |                              |
//! | sam.gz   | records, record_bufs (sam over async bgzf)    | yes (sam over async bgzf) |                 |
//! | bam      | records, record_bufs, read_record+positions   | yes          | bai -> bam, csi -> bam       |
//! | bam-raw  | records, record_bufs (Reader::from(plain))    | yes (Writer::from(plain)) |                 |
//! | vcf      | records, record_bufs                          | yes          |                              |
//! | vcf.gz   | records, record_bufs (vcf over async bgzf)    | yes (vcf over async bgzf) | tabix -> vcf.gz |
//! | bcf      | records only (no async record_bufs)           | yes          | csi -> bcf                   |
//! | bcf-raw  | records only                                  | yes          |                              |
//! | fasta    | read_definition+read_sequence only (no async records(), no async Indexer) | yes | - (no async query) |
//! | fastq    | records only (no async Indexer)               | yes          |                              |
//! | gff      | lines, record_bufs                            | - (no async writer) |                       |
//! | gtf, bed | - (no async module)                           | -            |                              |
//! | bai, csi, tabix, gzi, fai | read_index                   | yes          |                              |
//! | cram     | records, read_container+slices                | yes, if `async_writer_supports` | crai -> cram |
//! | crai     | read_index                                    | yes          |                              |
//!
//! Finishing calls (careful user): the type's own `shutdown()` where it has one (bgzf, bam, vcf,
//! bai, csi, tabix, fai, crai, cram: `shutdown(&header)`), otherwise `get_mut().shutdown()` on the
//! inner `AsyncWrite` (sam, bcf, fasta, fastq, gzi: these async writers have no finishing call; for
//! sam.gz / bcf the inner writer is the async BGZF writer, whose shutdown writes the EOF block).
//!
//! Worker counts: set from `workers` wherever the caller builds the async BGZF reader/writer
//! (bgzf, bam, bcf, sam.gz, vcf.gz, queries). The csi / tabix async readers and writers build their
//! BGZF layer internally (`Reader::new` / `Writer::new`) and use `available_parallelism()` workers;
//! there is no setter.
//!
//! CRAM writer options: the async builder offers `set_reference_sequence_repository`,
//! `preserve_read_names`, `encode_alignment_start_positions_as_deltas` and
//! `set_block_content_encoder_map` (all four of `fmt::cram::write_cram`, so every encoder and the
//! version selector are available); it has no counterpart of the records-per-slice hook H3, which
//! exists on the sync builder only.

use std::io;
use std::num::NonZero;
use std::sync::Arc;

use futures::TryStreamExt;
use noodles_bam as bam;
use noodles_bcf as bcf;
use noodles_bgzf as bgzf;
use noodles_cram as cram;
use noodles_csi as csi;
use noodles_fasta as fasta;
use noodles_fastq as fastq;
use noodles_gff as gff;
use noodles_sam as sam;
use noodles_tabix as tabix;
use noodles_vcf as vcf;
use tokio::io::{AsyncBufReadExt, AsyncReadExt, AsyncWriteExt, BufReader};

use super::{
    End, Obs, ObsBuf, align,
    kinds::{Kind, Model},
    variant,
};
use crate::seams::aio::{SimAsyncRead, SimAsyncWrite};

/// kinds that have at least one async reader or writer twin
pub const ASYNC_KINDS: &[Kind] = &[
    Kind::Bgzf,
    Kind::Sam,
    Kind::SamGz,
    Kind::Bam,
    Kind::BamRaw,
    Kind::Vcf,
    Kind::VcfGz,
    Kind::Bcf,
    Kind::BcfRaw,
    Kind::Fasta,
    Kind::Fastq,
    Kind::Gff,
    Kind::Bai,
    Kind::Csi,
    Kind::Tabix,
    Kind::Gzi,
    Kind::Fai,
    Kind::Cram,
    Kind::Crai,
];

/// index kinds whose companion data file has an async query twin
pub const QUERY_INDEX_KINDS: &[Kind] = &[Kind::Bai, Kind::Csi, Kind::Tabix, Kind::Gzi, Kind::Crai];

pub fn has_async_reader(kind: Kind, variant: u8) -> bool {
    if super::kinds::is_util_variant(kind, variant) {
        // the facade readers are compared in their sync form only
        return false;
    }
    match kind {
        // read_to_end / read-777 / fill_buf
        Kind::Bgzf => true,
        // records / record_bufs (/ read_record + positions)
        Kind::Sam | Kind::SamGz | Kind::Bam | Kind::BamRaw | Kind::Vcf | Kind::VcfGz => true,
        // bcf::async::io::Reader has records() and read_record() but no record_bufs()
        Kind::Bcf | Kind::BcfRaw => variant % 2 == 0,
        // fasta::async::io::Reader has read_definition / read_sequence only; there is no async
        // records() and no async Indexer
        Kind::Fasta => variant % 3 == 1,
        // fastq::async::io::Reader has records(); there is no async Indexer
        Kind::Fastq => variant % 2 == 0,
        // lines / record_bufs
        Kind::Gff => true,
        // no async module in noodles-gtf / noodles-bed
        Kind::Gtf | Kind::Bed => false,
        Kind::Bai | Kind::Csi | Kind::Tabix | Kind::Gzi | Kind::Fai | Kind::Crai => true,
        // records / read_container + slices
        Kind::Cram => true,
    }
}

pub fn has_async_writer(kind: Kind) -> bool {
    match kind {
        Kind::Bgzf
        | Kind::Sam
        | Kind::SamGz
        | Kind::Bam
        | Kind::BamRaw
        | Kind::Vcf
        | Kind::VcfGz
        | Kind::Bcf
        | Kind::BcfRaw
        | Kind::Fasta
        | Kind::Fastq
        | Kind::Bai
        | Kind::Csi
        | Kind::Tabix
        | Kind::Gzi
        | Kind::Fai
        | Kind::Cram
        | Kind::Crai => true,
        // noodles-gff has an async reader only; gtf / bed have no async module
        Kind::Gff | Kind::Gtf | Kind::Bed => false,
    }
}

/// Can the async writer twin be configured like the sync writer was for this model? (Always, since
/// hook H4 gave the async CRAM builder the records-per-slice setter that H3 gave the sync one; every
/// encoder of `CramOpts` is selectable through the same `BlockContentEncoderMap`.)
pub fn async_writer_supports(_model: &Model) -> bool {
    true
}

pub fn has_async_query(index_kind: Kind, data_kind: Kind) -> bool {
    matches!(
        (index_kind, data_kind),
        (Kind::Bai, Kind::Bam)
            | (Kind::Csi, Kind::Bam)
            | (Kind::Csi, Kind::Bcf)
            | (Kind::Tabix, Kind::VcfGz)
            | (Kind::Gzi, Kind::Bgzf)
            | (Kind::Crai, Kind::Cram)
    )
    // (Fai, Fasta): fasta::async::io::Reader has seek() but no query()
}

/// formats whose bytes pass through a compressor other than BGZF (byte identity not demanded)
pub fn compressed_kind(kind: Kind) -> bool {
    matches!(kind, Kind::Cram | Kind::Crai)
}

fn workers_nz(workers: usize) -> NonZero<usize> {
    NonZero::new(workers.max(1)).unwrap()
}

fn bgzf_reader(src: SimAsyncRead, workers: usize) -> bgzf::r#async::io::Reader<SimAsyncRead> {
    bgzf::r#async::io::reader::Builder::default()
        .set_worker_count(workers_nz(workers))
        .build_from_reader(src)
}

fn bgzf_writer(sink: SimAsyncWrite, workers: usize) -> bgzf::r#async::io::Writer<SimAsyncWrite> {
    bgzf::r#async::io::writer::Builder::default()
        .set_worker_count(workers_nz(workers))
        .build_from_writer(sink)
}

fn finish_obs(buf: ObsBuf, r: io::Result<()>) -> Obs {
    let end = match r {
        Ok(()) => End::Eof,
        Err(e) => End::Err {
            kind: format!("{:?}", e.kind()),
            msg: e.to_string(),
        },
    };
    Obs {
        items: buf.items,
        bytes: buf.bytes,
        end,
    }
}

fn lossy(b: &[u8]) -> String {
    String::from_utf8_lossy(b).into_owned()
}

fn lazy(variant: u8) -> bool {
    variant % 2 == 0
}

// ------------------------------------------------------------------------------------- readers

/// Reads a source of the given kind to the end with the async reader twin of reading-protocol
/// variant `variant`; same items as `kinds::read(kind, variant, ..)`. Panics are contained by the
/// caller (aexec::run).
pub async fn aread(kind: Kind, variant: u8, src: SimAsyncRead, workers: usize) -> Obs {
    let mut buf = ObsBuf::default();
    let r = aread_inner(kind, variant, src, workers, &mut buf).await;
    finish_obs(buf, r)
}

async fn aread_inner(kind: Kind, variant: u8, src: SimAsyncRead, workers: usize, o: &mut ObsBuf) -> io::Result<()> {
    if !has_async_reader(kind, variant) {
        return Err(io::Error::other("harness: no async reader twin for this kind/variant"));
    }
    let ObsBuf { items, bytes: out } = o;
    match kind {
        Kind::Bgzf => {
            let mut r = bgzf_reader(src, workers);
            match variant % 3 {
                0 => {
                    r.read_to_end(out).await?;
                }
                1 => {
                    let mut buf = [0u8; 777];
                    loop {
                        let n = match r.read(&mut buf).await {
                            Ok(n) => n,
                            Err(e) if e.kind() == io::ErrorKind::Interrupted => continue,
                            Err(e) => return Err(e),
                        };
                        if n == 0 {
                            break;
                        }
                        out.extend_from_slice(&buf[..n]);
                    }
                }
                _ => loop {
                    let w = match r.fill_buf().await {
                        Ok(w) => w,
                        Err(e) if e.kind() == io::ErrorKind::Interrupted => continue,
                        Err(e) => return Err(e),
                    };
                    if w.is_empty() {
                        break;
                    }
                    let n = w.len();
                    out.extend_from_slice(w);
                    r.consume(n);
                },
            }
            items.push(format!("P|{}", u64::from(r.virtual_position())));
            Ok(())
        }
        Kind::Sam => aread_sam(sam::r#async::io::Reader::new(BufReader::new(src)), lazy(variant), items).await,
        Kind::SamGz => aread_sam(sam::r#async::io::Reader::new(bgzf_reader(src, workers)), lazy(variant), items).await,
        Kind::Bam => match variant % 3 {
            2 => {
                let mut r = bam::r#async::io::Reader::from(bgzf_reader(src, workers));
                let header = r.read_header().await?;
                items.push(format!("H|{}", align::render_header(&header)?));
                items.push(format!("P|{}", u64::from(r.get_ref().virtual_position())));
                let mut rec = bam::Record::default();
                loop {
                    let n = r.read_record(&mut rec).await?;
                    if n == 0 {
                        break;
                    }
                    items.push(format!("R|{}", align::render_record(&header, &rec)?));
                    items.push(format!("P|{}", u64::from(r.get_ref().virtual_position())));
                }
                Ok(())
            }
            v => aread_bam(bam::r#async::io::Reader::from(bgzf_reader(src, workers)), lazy(v), items).await,
        },
        Kind::BamRaw => aread_bam(bam::r#async::io::Reader::from(src), lazy(variant), items).await,
        Kind::Vcf => aread_vcf(vcf::r#async::io::Reader::new(BufReader::new(src)), lazy(variant), items).await,
        Kind::VcfGz => aread_vcf(vcf::r#async::io::Reader::new(bgzf_reader(src, workers)), lazy(variant), items).await,
        Kind::Bcf => aread_bcf(bcf::r#async::io::Reader::from(bgzf_reader(src, workers)), items).await,
        Kind::BcfRaw => aread_bcf(bcf::r#async::io::Reader::from(src), items).await,
        Kind::Fasta => {
            // variant 1: definition / sequence calls separately
            let mut r = fasta::r#async::io::Reader::new(BufReader::new(src));
            let mut def = String::new();
            let mut seq = Vec::new();
            loop {
                def.clear();
                let mut d = fasta::record::Definition::default();
                let n = r.read_definition(&mut d).await?;
                def.push_str(&format!("{d:?}"));
                if n == 0 {
                    break;
                }
                seq.clear();
                r.read_sequence(&mut seq).await?;
                items.push(format!("D|{def}|{}", lossy(&seq)));
            }
            Ok(())
        }
        Kind::Fastq => {
            let mut r = fastq::r#async::io::Reader::new(BufReader::new(src));
            let mut s = r.records();
            while let Some(rec) = s.try_next().await? {
                items.push(format!(
                    "R|{}|{}|{}|{}",
                    lossy(rec.name()),
                    lossy(rec.description()),
                    lossy(rec.sequence()),
                    lossy(rec.quality_scores())
                ));
            }
            Ok(())
        }
        Kind::Gff => {
            let mut r = gff::r#async::io::Reader::new(BufReader::new(src));
            if variant % 3 == 2 {
                let mut s = r.line_bufs();
                while let Some(line) = s.try_next().await? {
                    items.push(format!("B|{line:?}"));
                }
                return Ok(());
            }
            match variant % 3 {
                0 => {
                    let mut s = r.lines();
                    while let Some(line) = s.try_next().await? {
                        let raw: &bstr::BStr = line.as_ref();
                        items.push(format!("L|{raw}"));
                        if let Some(rec) = line.as_record() {
                            let rec = rec?;
                            items.push(format!("F|{rec:?}"));
                        }
                    }
                }
                _ => {
                    let mut s = r.record_bufs();
                    while let Some(rec) = s.try_next().await? {
                        items.push(format!("R|{rec:?}"));
                    }
                }
            }
            Ok(())
        }
        Kind::Gtf | Kind::Bed => unreachable!(),
        Kind::Bai => {
            let idx = bam::bai::r#async::io::Reader::new(src).read_index().await?;
            items.push(format!("X|{idx:?}"));
            Ok(())
        }
        Kind::Csi => {
            let idx = csi::r#async::io::Reader::new(src).read_index().await?;
            items.push(format!("X|{idx:?}"));
            Ok(())
        }
        Kind::Tabix => {
            let idx = tabix::r#async::io::Reader::new(src).read_index().await?;
            items.push(format!("X|{idx:?}"));
            Ok(())
        }
        Kind::Gzi => {
            let idx = bgzf::gzi::r#async::io::Reader::new(src).read_index().await?;
            items.push(format!("X|{idx:?}"));
            Ok(())
        }
        Kind::Fai => {
            let idx = fasta::fai::r#async::io::Reader::new(BufReader::new(src)).read_index().await?;
            for rec in idx.as_ref() {
                items.push(format!("R|{rec:?}"));
            }
            Ok(())
        }
        Kind::Crai => {
            let idx = cram::crai::r#async::io::Reader::new(src).read_index().await?;
            for rec in &idx {
                items.push(format!("R|{rec:?}"));
            }
            Ok(())
        }
        Kind::Cram => {
            let refs = super::kinds::cram_refs();
            let repo = super::cram::repository(&refs);
            let mut r = cram::r#async::io::reader::Builder::default()
                .set_reference_sequence_repository(repo.clone())
                .build_from_reader(src);
            let header = r.read_header().await?;
            items.push(format!("H|{}", align::render_header(&header)?));
            if lazy(variant) {
                let mut s = r.records(&header);
                while let Some(rec) = s.try_next().await? {
                    items.push(format!("R|{}", align::render_record(&header, &rec)?));
                }
            } else {
                // container-level decoding under the caller's control (fmt::cram::read_cram_with,
                // Render::ViaRecordBuf): only the container read is async, the rest is the same code
                let mut container = cram::io::reader::Container::default();
                while r.read_container(&mut container).await? != 0 {
                    let compression_header = container.compression_header()?;
                    for slice in container.slices() {
                        let slice = slice?;
                        let (core, external) = slice.decode_blocks()?;
                        let records = slice.records(repo.clone(), &header, &compression_header, &core, &external)?;
                        for rec in &records {
                            let buf = sam::alignment::RecordBuf::try_from_alignment_record(&header, rec)?;
                            items.push(format!("R|{}", align::render_record(&header, &buf)?));
                        }
                    }
                }
            }
            Ok(())
        }
    }
}

async fn aread_sam<R>(mut r: sam::r#async::io::Reader<R>, lazy: bool, items: &mut Vec<String>) -> io::Result<()>
where
    R: tokio::io::AsyncBufRead + Unpin,
{
    let header = r.read_header().await?;
    items.push(format!("H|{}", align::render_header(&header)?));
    if lazy {
        let mut s = r.records();
        while let Some(rec) = s.try_next().await? {
            items.push(format!("R|{}", align::render_record(&header, &rec)?));
        }
    } else {
        let mut s = r.record_bufs(&header);
        while let Some(rec) = s.try_next().await? {
            items.push(format!("R|{}", align::render_record(&header, &rec)?));
        }
    }
    Ok(())
}

async fn aread_bam<R>(mut r: bam::r#async::io::Reader<R>, lazy: bool, items: &mut Vec<String>) -> io::Result<()>
where
    R: tokio::io::AsyncRead + Unpin,
{
    let header = r.read_header().await?;
    items.push(format!("H|{}", align::render_header(&header)?));
    if lazy {
        let mut s = r.records();
        while let Some(rec) = s.try_next().await? {
            items.push(format!("R|{}", align::render_record(&header, &rec)?));
        }
    } else {
        let mut s = r.record_bufs(&header);
        while let Some(rec) = s.try_next().await? {
            items.push(format!("R|{}", align::render_record(&header, &rec)?));
        }
    }
    Ok(())
}

async fn aread_vcf<R>(mut r: vcf::r#async::io::Reader<R>, lazy: bool, items: &mut Vec<String>) -> io::Result<()>
where
    R: tokio::io::AsyncBufRead + Unpin,
{
    let header = r.read_header().await?;
    items.push(format!("H|{}", variant::render_header(&header)?));
    if lazy {
        let mut s = r.records();
        while let Some(rec) = s.try_next().await? {
            items.push(format!("R|{}", variant::render_record(&header, &rec)?));
        }
    } else {
        let mut s = r.record_bufs(&header);
        while let Some(rec) = s.try_next().await? {
            items.push(format!("R|{}", variant::render_record(&header, &rec)?));
        }
    }
    Ok(())
}

async fn aread_bcf<R>(mut r: bcf::r#async::io::Reader<R>, items: &mut Vec<String>) -> io::Result<()>
where
    R: tokio::io::AsyncRead + Unpin,
{
    let header = r.read_header().await?;
    items.push(format!("H|{}", variant::render_header(&header)?));
    let mut s = r.records();
    while let Some(rec) = s.try_next().await? {
        items.push(format!("R|{}", variant::render_record(&header, &rec)?));
    }
    Ok(())
}

// ------------------------------------------------------------------------------------- writers

/// Writes the model with the async writer twin following the same careful-user protocol as
/// `kinds::write_to` (header, records, then the finishing call: see the module documentation).
pub async fn awrite(kind: Kind, model: &Model, sink: SimAsyncWrite, workers: usize) -> io::Result<()> {
    if !has_async_writer(kind) {
        return Err(io::Error::other("harness: no async writer twin for this kind"));
    }
    if !async_writer_supports(model) {
        return Err(io::Error::other("harness: the async writer cannot be configured for this model"));
    }
    match (kind, model) {
        (Kind::Bgzf, Model::Bytes { payload, cuts }) => {
            let mut w = bgzf_writer(sink, workers);
            let mut prev = 0;
            for &c in cuts {
                w.write_all(&payload[prev..c]).await?;
                w.flush().await?;
                prev = c;
            }
            w.write_all(&payload[prev..]).await?;
            w.shutdown().await
        }
        (Kind::Sam, Model::Align { parsed, .. }) => {
            let mut w = sam::r#async::io::Writer::new(sink);
            w.write_header(&parsed.header).await?;
            for r in &parsed.records {
                w.write_alignment_record(&parsed.header, r).await?;
            }
            w.get_mut().shutdown().await
        }
        (Kind::SamGz, Model::Align { parsed, .. }) => {
            let mut w = sam::r#async::io::Writer::new(bgzf_writer(sink, workers));
            w.write_header(&parsed.header).await?;
            for r in &parsed.records {
                w.write_alignment_record(&parsed.header, r).await?;
            }
            w.get_mut().shutdown().await
        }
        (Kind::Bam, Model::Align { parsed, .. }) => {
            let mut w = bam::r#async::io::Writer::from(bgzf_writer(sink, workers));
            w.write_header(&parsed.header).await?;
            for (i, r) in parsed.records.iter().enumerate() {
                if let Some(bad) = super::align::rejected_record(parsed, i) {
                    if w.write_alignment_record(&parsed.header, &bad).await.is_ok() {
                        return Err(io::Error::other("nsim: the invalid record was accepted"));
                    }
                }
                w.write_alignment_record(&parsed.header, r).await?;
            }
            w.shutdown().await
        }
        (Kind::BamRaw, Model::Align { parsed, .. }) => {
            let mut w = bam::r#async::io::Writer::from(sink);
            w.write_header(&parsed.header).await?;
            for (i, r) in parsed.records.iter().enumerate() {
                if let Some(bad) = super::align::rejected_record(parsed, i) {
                    if w.write_alignment_record(&parsed.header, &bad).await.is_ok() {
                        return Err(io::Error::other("nsim: the invalid record was accepted"));
                    }
                }
                w.write_alignment_record(&parsed.header, r).await?;
            }
            w.shutdown().await
        }
        (Kind::Vcf, Model::Variant { parsed, .. }) => {
            let mut w = vcf::r#async::io::Writer::new(sink);
            w.write_header(&parsed.header).await?;
            for r in &parsed.records {
                w.write_variant_record(&parsed.header, r).await?;
            }
            w.shutdown().await
        }
        (Kind::VcfGz, Model::Variant { parsed, .. }) => {
            let mut w = vcf::r#async::io::Writer::new(bgzf_writer(sink, workers));
            w.write_header(&parsed.header).await?;
            for r in &parsed.records {
                w.write_variant_record(&parsed.header, r).await?;
            }
            w.shutdown().await
        }
        (Kind::Bcf, Model::Variant { parsed, .. }) => {
            let mut w = bcf::r#async::io::Writer::from(bgzf_writer(sink, workers));
            w.write_header(&parsed.header).await?;
            for r in &parsed.records {
                w.write_variant_record(&parsed.header, r).await?;
            }
            w.get_mut().shutdown().await
        }
        (Kind::BcfRaw, Model::Variant { parsed, .. }) => {
            let mut w = bcf::r#async::io::Writer::from(sink);
            w.write_header(&parsed.header).await?;
            for r in &parsed.records {
                w.write_variant_record(&parsed.header, r).await?;
            }
            w.get_mut().shutdown().await
        }
        (Kind::Fasta, Model::Fasta(m, width)) => {
            let width = NonZero::new((*width).max(1)).unwrap();
            let mut w = fasta::r#async::io::writer::Builder::default()
                .set_line_base_count(width)
                .build_from_writer(sink);
            for r in &m.records {
                let def = fasta::record::Definition::new(r.name.as_str(), r.description.clone().map(bstr::BString::from));
                let rec = fasta::Record::new(def, fasta::record::Sequence::from(r.sequence.clone()));
                w.write_record(&rec).await?;
            }
            w.get_mut().shutdown().await
        }
        (Kind::Fastq, Model::Fastq(m)) => {
            let mut w = fastq::r#async::io::Writer::new(sink);
            for r in &m.records {
                let def = fastq::record::Definition::new(r.name.as_str(), r.description.as_str());
                let rec = fastq::Record::new(def, r.sequence.clone(), r.quality.clone());
                w.write_record(&rec).await?;
            }
            w.get_mut().shutdown().await
        }
        (Kind::Bai, Model::Bai(i)) => {
            let mut w = bam::bai::r#async::io::Writer::new(sink);
            w.write_index(i).await?;
            w.shutdown().await
        }
        (Kind::Csi, Model::Csi(i)) => {
            let mut w = csi::r#async::io::Writer::new(sink);
            w.write_index(i).await?;
            w.shutdown().await
        }
        (Kind::Tabix, Model::Tabix(i)) => {
            let mut w = tabix::r#async::io::Writer::new(sink);
            w.write_index(i).await?;
            w.shutdown().await
        }
        (Kind::Gzi, Model::Gzi(i)) => {
            let mut w = bgzf::gzi::r#async::io::Writer::new(sink);
            w.write_index(i).await?;
            w.get_mut().shutdown().await
        }
        (Kind::Fai, Model::Fai(i)) => {
            let mut w = fasta::fai::r#async::io::Writer::new(sink);
            w.write_index(i).await?;
            w.shutdown().await
        }
        (Kind::Crai, Model::Crai(i)) => {
            let mut w = cram::crai::r#async::io::Writer::new(sink);
            w.write_index(i).await?;
            w.shutdown().await
        }
        (Kind::Cram, Model::Cram { model, parsed, opts }) => {
            // same options as fmt::cram::write_cram (writer_builder), incl. the records-per-slice
            // hook (H4 is the async twin of H3)
            let mut b = cram::r#async::io::writer::Builder::default()
                .set_reference_sequence_repository(super::cram::repository(&model.refs))
                .preserve_read_names(opts.preserve_read_names)
                .encode_alignment_start_positions_as_deltas(opts.encode_alignment_start_positions_as_deltas);
            if let Some(map) = super::cram::encoder_map(opts) {
                b = b.set_block_content_encoder_map(map);
            }
            if let Some(n) = opts.records_per_slice {
                b = b.set_records_per_slice(n);
            }
            let mut w = b.build_from_writer(sink);
            w.write_header(&parsed.header).await?;
            for r in &parsed.records {
                w.write_alignment_record(&parsed.header, r).await?;
            }
            // the type's finishing call (last container + EOF container); it does not shut the
            // inner writer down, which the careful user does next
            w.shutdown(&parsed.header).await?;
            w.get_mut().shutdown().await
        }
        _ => Err(io::Error::other("harness: kind/model mismatch")),
    }
}

// ------------------------------------------------------------------------------------- queries

const MAX_ITEMS: usize = 200_000;

fn too_many() -> io::Error {
    io::Error::other("nsim: too many query results")
}

/// Async counterpart of `fmt::query::query`: loads the index from `index_bytes` with the *async*
/// index reader and runs the same region / unmapped queries with the async data reader.
pub async fn aquery(index_kind: Kind, index_bytes: Arc<Vec<u8>>, data_kind: Kind, src: SimAsyncRead, workers: usize) -> Obs {
    let mut buf = ObsBuf::default();
    let r = aquery_inner(index_kind, &index_bytes, data_kind, src, workers, &mut buf.items).await;
    finish_obs(buf, r)
}

async fn aquery_inner(index_kind: Kind, index_bytes: &[u8], data_kind: Kind, src: SimAsyncRead, workers: usize, items: &mut Vec<String>) -> io::Result<()> {
    use super::query::regions;
    match (index_kind, data_kind) {
        (Kind::Bai, Kind::Bam) => {
            let index = bam::bai::r#async::io::Reader::new(index_bytes).read_index().await?;
            abam_queries(src, workers, &index, items).await
        }
        (Kind::Csi, Kind::Bam) => {
            let index = csi::r#async::io::Reader::new(index_bytes).read_index().await?;
            abam_queries(src, workers, &index, items).await
        }
        (Kind::Csi, Kind::Bcf) => {
            let index = csi::r#async::io::Reader::new(index_bytes).read_index().await?;
            let mut r = bcf::r#async::io::Reader::from(bgzf_reader(src, workers));
            let header = r.read_header().await?;
            let names: Vec<String> = header.contigs().keys().map(|k| k.to_string()).collect();
            for region in regions(&names) {
                let q = match r.query(&header, &index, &region) {
                    Ok(q) => q,
                    Err(e) => {
                        items.push(format!("Q|{region}|Err({:?})", e.kind()));
                        continue;
                    }
                };
                let mut s = q.records();
                loop {
                    match s.try_next().await {
                        Ok(Some(rec)) => items.push(format!("Q|{region}|{}", variant::render_record(&header, &rec).unwrap_or_else(|e| format!("render error {e}")))),
                        Ok(None) => break,
                        Err(e) => {
                            items.push(format!("Q|{region}|Err({:?})", e.kind()));
                            break;
                        }
                    }
                    if items.len() > MAX_ITEMS {
                        return Err(too_many());
                    }
                }
            }
            Ok(())
        }
        (Kind::Tabix, Kind::VcfGz) => {
            let index = tabix::r#async::io::Reader::new(index_bytes).read_index().await?;
            let mut r = vcf::r#async::io::Reader::new(bgzf_reader(src, workers));
            let header = r.read_header().await?;
            let names: Vec<String> = header.contigs().keys().map(|k| k.to_string()).collect();
            for region in regions(&names) {
                let q = match r.query(&header, &index, &region) {
                    Ok(q) => q,
                    Err(e) => {
                        items.push(format!("Q|{region}|Err({:?})", e.kind()));
                        continue;
                    }
                };
                let mut s = q.records();
                loop {
                    match s.try_next().await {
                        Ok(Some(rec)) => items.push(format!("Q|{region}|{}", variant::render_record(&header, &rec).unwrap_or_else(|e| format!("render error {e}")))),
                        Ok(None) => break,
                        Err(e) => {
                            items.push(format!("Q|{region}|Err({:?})", e.kind()));
                            break;
                        }
                    }
                    if items.len() > MAX_ITEMS {
                        return Err(too_many());
                    }
                }
            }
            Ok(())
        }
        (Kind::Gzi, Kind::Bgzf) => {
            // sync: bgzf::io::IndexedReader::seek(SeekFrom::Start(off)), which is
            // Reader::seek_by_uncompressed_position(&index, off); there is no async IndexedReader
            // in noodles-bgzf, the async Reader has the method itself
            let index = bgzf::gzi::r#async::io::Reader::new(index_bytes).read_index().await?;
            let mut r = bgzf_reader(src, workers);
            for off in [0u64, 1, 100, 65_535, 65_536, 70_000, 200_000, 1 << 20, 1 << 33] {
                match r.seek_by_uncompressed_position(&index, off).await {
                    Ok(_) => {
                        let mut buf = [0u8; 16];
                        let n = loop {
                            match r.read(&mut buf).await {
                                Err(e) if e.kind() == io::ErrorKind::Interrupted => continue,
                                other => break other,
                            }
                        };
                        match n {
                            Ok(n) => items.push(format!("Q|{off}|{:02x?}|{}", &buf[..n], u64::from(r.virtual_position()))),
                            Err(e) => items.push(format!("Q|{off}|read Err({:?})", e.kind())),
                        }
                        if r.seek_by_uncompressed_position(&index, off).await.is_ok() {
                            let mut b4 = [0u8; 4];
                            let e = r.read_exact(&mut b4).await.map(|_| ());
                            items.push(format!("Q|{off}|read_exact {:?} {:02x?}", e.as_ref().map_err(|e| e.kind()), if e.is_ok() { b4 } else { [0; 4] }));
                        }
                        if r.seek_by_uncompressed_position(&index, off).await.is_ok() {
                            use tokio::io::AsyncBufReadExt;
                            let e = r.fill_buf().await.map(|b| b.len().min(1));
                            items.push(format!("Q|{off}|fill_buf {:?}", e.map_err(|e| e.kind())));
                        }
                    }
                    Err(e) => items.push(format!("Q|{off}|seek Err({:?})", e.kind())),
                }
            }
            Ok(())
        }
        (Kind::Crai, Kind::Cram) => {
            let index = cram::crai::r#async::io::Reader::new(index_bytes).read_index().await?;
            let refs = super::kinds::cram_refs();
            let mut r = cram::r#async::io::reader::Builder::default()
                .set_reference_sequence_repository(super::cram::repository(&refs))
                .build_from_reader(src);
            let header = r.read_header().await?;
            let names: Vec<String> = header.reference_sequences().keys().map(|k| k.to_string()).collect();
            for region in regions(&names) {
                let q = match r.query(&header, &index, &region) {
                    Ok(q) => q,
                    Err(e) => {
                        items.push(format!("Q|{region}|Err({:?})", e.kind()));
                        continue;
                    }
                };
                let mut s = q.records();
                loop {
                    match s.try_next().await {
                        Ok(Some(rec)) => items.push(format!("Q|{region}|{}", align::render_record(&header, &rec).unwrap_or_else(|e| format!("render error {e}")))),
                        Ok(None) => break,
                        Err(e) => {
                            items.push(format!("Q|{region}|Err({:?})", e.kind()));
                            break;
                        }
                    }
                    if items.len() > MAX_ITEMS {
                        return Err(too_many());
                    }
                }
            }
            Ok(())
        }
        _ => Err(io::Error::other("harness: no async query twin for this index/data pair")),
    }
}

async fn abam_queries<I>(src: SimAsyncRead, workers: usize, index: &I, items: &mut Vec<String>) -> io::Result<()>
where
    I: csi::BinningIndex,
{
    use super::query::regions;
    let mut r = bam::r#async::io::Reader::from(bgzf_reader(src, workers));
    let header = r.read_header().await?;
    let names: Vec<String> = header.reference_sequences().keys().map(|k| k.to_string()).collect();
    for region in regions(&names) {
        let q = match r.query(&header, index, &region) {
            Ok(q) => q,
            Err(e) => {
                items.push(format!("Q|{region}|Err({:?})", e.kind()));
                continue;
            }
        };
        let mut s = q.records();
        loop {
            match s.try_next().await {
                Ok(Some(rec)) => items.push(format!("Q|{region}|{}", align::render_record(&header, &rec).unwrap_or_else(|e| format!("render error {e}")))),
                Ok(None) => break,
                Err(e) => {
                    items.push(format!("Q|{region}|Err({:?})", e.kind()));
                    break;
                }
            }
            if items.len() > MAX_ITEMS {
                return Err(too_many());
            }
        }
    }
    match r.query_unmapped(index).await {
        Ok(mut s) => loop {
            match s.try_next().await {
                Ok(Some(rec)) => items.push(format!("Q|unmapped|{}", align::render_record(&header, &rec).unwrap_or_else(|e| format!("render error {e}")))),
                Ok(None) => break,
                Err(e) => {
                    items.push(format!("Q|unmapped|Err({:?})", e.kind()));
                    break;
                }
            }
            if items.len() > MAX_ITEMS {
                return Err(too_many());
            }
        },
        Err(e) => items.push(format!("Q|unmapped|Err({:?})", e.kind())),
    }
    Ok(())
}
