//! Query protocols: an index (possibly corrupted; C15) loaded from bytes and used for region and
//! unmapped queries against the intact data file it belongs to.

use std::io::{self, Cursor, Read, Seek, SeekFrom};
use std::sync::Arc;

use noodles_bam as bam;
use noodles_bcf as bcf;
use noodles_bgzf as bgzf;
use noodles_core::Region;
use noodles_csi as csi;
use noodles_fasta as fasta;
use noodles_tabix as tabix;
use noodles_vcf as vcf;

use super::{ArcBytes, align, kinds::Kind, variant};

pub(crate) fn regions(names: &[String]) -> Vec<Region> {
    let mut v = Vec::new();
    for n in names.iter().take(2) {
        for r in [
            n.to_string(),
            format!("{n}:1-1000"),
            format!("{n}:500-100000"),
            format!("{n}:65536-65537"),
            format!("{n}:536870000-536870912"),
        ] {
            if let Ok(r) = r.parse::<Region>() {
                v.push(r);
            }
        }
    }
    v
}

const MAX_ITEMS: usize = 200_000;

pub fn query(index_kind: Kind, index_bytes: &[u8], data_kind: Kind, data: Arc<Vec<u8>>, items: &mut Vec<String>) -> io::Result<()> {
    let cur = || Cursor::new(ArcBytes(data.clone()));
    match (index_kind, data_kind) {
        (Kind::Bai, Kind::Bam) => {
            let index = bam::bai::io::Reader::new(index_bytes).read_index()?;
            bam_queries(cur(), &index, items)
        }
        (Kind::Csi, Kind::Bam) => {
            let index = csi::io::Reader::new(index_bytes).read_index()?;
            bam_queries(cur(), &index, items)
        }
        (Kind::Csi, Kind::Bcf) => {
            let index = csi::io::Reader::new(index_bytes).read_index()?;
            let mut r = bcf::io::Reader::new(cur());
            let header = r.read_header()?;
            let names: Vec<String> = header.contigs().keys().map(|k| k.to_string()).collect();
            for region in regions(&names) {
                let q = match r.query(&header, &index, &region) {
                    Ok(q) => q,
                    Err(e) => {
                        items.push(format!("Q|{region}|Err({:?})", e.kind()));
                        continue;
                    }
                };
                for rec in q.records() {
                    match rec {
                        Ok(rec) => items.push(format!("Q|{region}|{}", variant::render_record(&header, &rec).unwrap_or_else(|e| format!("render error {e}")))),
                        Err(e) => {
                            items.push(format!("Q|{region}|Err({:?})", e.kind()));
                            break;
                        }
                    }
                    if items.len() > MAX_ITEMS {
                        return Err(io::Error::other("nsim: too many query results"));
                    }
                }
            }
            Ok(())
        }
        (Kind::Tabix, Kind::VcfGz) => {
            let index = tabix::io::Reader::new(index_bytes).read_index()?;
            let mut r = vcf::io::Reader::new(bgzf::io::Reader::new(cur()));
            let header = r.read_header()?;
            let names: Vec<String> = header.contigs().keys().map(|k| k.to_string()).collect();
            for region in regions(&names) {
                let q = match r.query(&header, &index, &region) {
                    Ok(q) => q,
                    Err(e) => {
                        items.push(format!("Q|{region}|Err({:?})", e.kind()));
                        continue;
                    }
                };
                for rec in q.records() {
                    match rec {
                        Ok(rec) => items.push(format!("Q|{region}|{}", variant::render_record(&header, &rec).unwrap_or_else(|e| format!("render error {e}")))),
                        Err(e) => {
                            items.push(format!("Q|{region}|Err({:?})", e.kind()));
                            break;
                        }
                    }
                    if items.len() > MAX_ITEMS {
                        return Err(io::Error::other("nsim: too many query results"));
                    }
                }
            }
            Ok(())
        }
        (Kind::Gzi, Kind::Bgzf) => {
            let index = bgzf::gzi::io::Reader::new(index_bytes).read_index()?;
            let mut r = bgzf::io::IndexedReader::new(cur(), index);
            for off in [0u64, 1, 100, 65_535, 65_536, 70_000, 200_000, 1 << 20, 1 << 33] {
                match r.seek(SeekFrom::Start(off)) {
                    Ok(_) => {
                        let mut buf = [0u8; 16];
                        let n = loop {
                            match r.read(&mut buf) {
                                Err(e) if e.kind() == io::ErrorKind::Interrupted => continue,
                                other => break other,
                            }
                        };
                        match n {
                            Ok(n) => items.push(format!("Q|{off}|{:02x?}|{}", &buf[..n], u64::from(r.virtual_position()))),
                            Err(e) => items.push(format!("Q|{off}|read Err({:?})", e.kind())),
                        }
                        // the other read entry points after a seek through the (possibly corrupt)
                        // index: read_exact (own fast path), fill_buf
                        if r.seek(SeekFrom::Start(off)).is_ok() {
                            let mut b4 = [0u8; 4];
                            let e = r.read_exact(&mut b4);
                            items.push(format!("Q|{off}|read_exact {:?} {:02x?}", e.as_ref().map_err(|e| e.kind()), if e.is_ok() { b4 } else { [0; 4] }));
                        }
                        if r.seek(SeekFrom::Start(off)).is_ok() {
                            use std::io::BufRead;
                            let e = r.fill_buf().map(|b| b.len().min(1));
                            items.push(format!("Q|{off}|fill_buf {:?}", e.map_err(|e| e.kind())));
                        }
                    }
                    Err(e) => items.push(format!("Q|{off}|seek Err({:?})", e.kind())),
                }
            }
            Ok(())
        }
        (Kind::Fai, Kind::Fasta) => {
            let index = fasta::fai::io::Reader::new(index_bytes).read_index()?;
            let names: Vec<String> = index.as_ref().iter().take(3).map(|r| r.name().to_string()).collect();
            let mut r = fasta::io::Reader::new(cur());
            for n in &names {
                for rs in [n.to_string(), format!("{n}:1-10"), format!("{n}:5-5000"), format!("{n}:100000-100010")] {
                    let Ok(region) = rs.parse::<Region>() else { continue };
                    match r.query(&index, &region) {
                        Ok(rec) => items.push(format!("Q|{rs}|{}", String::from_utf8_lossy(rec.sequence().as_ref()))),
                        Err(e) => items.push(format!("Q|{rs}|Err({:?})", e.kind())),
                    }
                }
            }
            Ok(())
        }
        (Kind::Crai, Kind::Cram) => {
            let index = noodles_cram::crai::io::Reader::new(index_bytes).read_index()?;
            let refs = super::kinds::cram_refs();
            let mut r = noodles_cram::io::reader::Builder::default()
                .set_reference_sequence_repository(super::cram::repository(&refs))
                .build_from_reader(cur());
            let header = r.read_header()?;
            let names: Vec<String> = header.reference_sequences().keys().map(|k| k.to_string()).collect();
            for region in regions(&names) {
                let q = match r.query(&header, &index, &region) {
                    Ok(q) => q,
                    Err(e) => {
                        items.push(format!("Q|{region}|Err({:?})", e.kind()));
                        continue;
                    }
                };
                for rec in q.records() {
                    match rec {
                        Ok(rec) => items.push(format!("Q|{region}|{}", align::render_record(&header, &rec).unwrap_or_else(|e| format!("render error {e}")))),
                        Err(e) => {
                            items.push(format!("Q|{region}|Err({:?})", e.kind()));
                            break;
                        }
                    }
                    if items.len() > MAX_ITEMS {
                        return Err(io::Error::other("nsim: too many query results"));
                    }
                }
            }
            Ok(())
        }
        _ => Err(io::Error::other("harness: no query protocol for this index/data pair")),
    }
}

fn bam_queries<R, I>(src: R, index: &I, items: &mut Vec<String>) -> io::Result<()>
where
    R: Read + Seek,
    I: csi::BinningIndex,
{
    let mut r = bam::io::Reader::new(src);
    let header = r.read_header()?;
    let names: Vec<String> = header.reference_sequences().keys().map(|k| k.to_string()).collect();
    for region in regions(&names) {
        let q = match r.query(&header, index, &region) {
            Ok(q) => q,
            Err(e) => {
                items.push(format!("Q|{region}|Err({:?})", e.kind()));
                continue;
            }
        };
        for rec in q.records() {
            match rec {
                Ok(rec) => items.push(format!("Q|{region}|{}", align::render_record(&header, &rec).unwrap_or_else(|e| format!("render error {e}")))),
                Err(e) => {
                    items.push(format!("Q|{region}|Err({:?})", e.kind()));
                    break;
                }
            }
            if items.len() > MAX_ITEMS {
                return Err(io::Error::other("nsim: too many query results"));
            }
        }
    }
    match r.query_unmapped(index) {
        Ok(q) => {
            for rec in q {
                match rec {
                    Ok(rec) => items.push(format!("Q|unmapped|{}", align::render_record(&header, &rec).unwrap_or_else(|e| format!("render error {e}")))),
                    Err(e) => {
                        items.push(format!("Q|unmapped|Err({:?})", e.kind()));
                        break;
                    }
                }
                if items.len() > MAX_ITEMS {
                    return Err(io::Error::other("nsim: too many query results"));
                }
            }
        }
        Err(e) => items.push(format!("Q|unmapped|Err({:?})", e.kind())),
    }
    Ok(())
}
