//! Orchestrator: forks worker processes, attributes aborts/hangs, merges statistics, dedupes,
//! minimises and replay-verifies findings, applies the known-findings file, writes evidence.

use std::{
    collections::BTreeMap,
    io::{BufRead, BufReader, Read},
    path::{Path, PathBuf},
    process::{Child, Command, Stdio},
    sync::{Arc, Mutex},
    time::{Duration, Instant},
};

use serde_json::{Value, json};

use super::{Check, Finding, Stats, Tier, Violation, evidence, known::KnownFindings};

pub struct Options {
    pub tier: Tier,
    pub seed: u64,
    pub workers: usize,
    pub limit: Option<u64>,
    pub verif_dir: PathBuf,
    pub minimise: bool,
    pub write_evidence: bool,
}

#[derive(Default)]
struct WorkerView {
    last_idx: Option<u64>,
    subs_seen: u64,
    last_sub: Option<String>,
    last_line_at: Option<Instant>,
    /// CPU time (clock ticks, all threads) of the worker sampled at (within 0.2 s before) the last line
    cpu_ticks: u64,
    cpu_sampled_at: Option<Instant>,
    pid: u32,
    findings: Vec<(u64, Finding)>,
    harness_errors: Vec<String>,
    stats: Option<Stats>,
    done: bool,
}

struct Worker {
    child: Child,
    view: Arc<Mutex<WorkerView>>,
    stderr_tail: Arc<Mutex<Vec<u8>>>,
    slice_index: u64,
    readers: Vec<std::thread::JoinHandle<()>>,
}

fn spawn_worker(
    check_id: &str,
    opts: &Options,
    slice_index: u64,
    slice_count: u64,
    from: u64,
    skip_subs: u64,
) -> std::io::Result<Worker> {
    let exe = std::env::current_exe()?;
    let mut cmd = Command::new(exe);
    cmd.arg("worker")
        .arg(check_id)
        .arg("--tier")
        .arg(opts.tier.name())
        .arg("--seed")
        .arg(opts.seed.to_string())
        .arg("--slice")
        .arg(format!("{slice_index}/{slice_count}"))
        .arg("--from")
        .arg(from.to_string())
        .arg("--skip-subs")
        .arg(skip_subs.to_string());
    if let Some(l) = opts.limit {
        cmd.arg("--limit").arg(l.to_string());
    }
    cmd.env("RUST_BACKTRACE", "0")
        .stdin(Stdio::null())
        .stdout(Stdio::piped())
        .stderr(Stdio::piped());
    let mut child = cmd.spawn()?;
    let view = Arc::new(Mutex::new(WorkerView {
        last_line_at: Some(Instant::now()),
        pid: child.id(),
        ..Default::default()
    }));
    let stderr_tail = Arc::new(Mutex::new(Vec::new()));
    let stdout = child.stdout.take().unwrap();
    let stderr = child.stderr.take().unwrap();
    let v2 = view.clone();
    let t1 = std::thread::spawn(move || read_worker_stdout(stdout, v2));
    let e2 = stderr_tail.clone();
    let t2 = std::thread::spawn(move || {
        let mut r = stderr;
        let mut buf = [0u8; 4096];
        loop {
            match r.read(&mut buf) {
                Ok(0) | Err(_) => break,
                Ok(n) => {
                    let mut t = e2.lock().unwrap();
                    t.extend_from_slice(&buf[..n]);
                    let len = t.len();
                    if len > 8192 {
                        t.drain(..len - 8192);
                    }
                }
            }
        }
    });
    Ok(Worker {
        child,
        view,
        stderr_tail,
        slice_index,
        readers: vec![t1, t2],
    })
}

/// (CPU ticks consumed by all threads of the process, whether any thread is runnable or in
/// uninterruptible I/O) from /proc; None when the process is gone.
fn proc_cpu_and_runnable(pid: u32) -> Option<(u64, bool)> {
    let stat = std::fs::read_to_string(format!("/proc/{pid}/stat")).ok()?;
    let rest = &stat[stat.rfind(')')? + 2..];
    let f: Vec<&str> = rest.split(' ').collect();
    // rest starts at field 3 (state); utime = field 14, stime = field 15
    let ticks = f.get(11)?.parse::<u64>().ok()? + f.get(12)?.parse::<u64>().ok()?;
    let mut runnable = false;
    if let Ok(rd) = std::fs::read_dir(format!("/proc/{pid}/task")) {
        for e in rd.flatten() {
            if let Ok(st) = std::fs::read_to_string(e.path().join("stat")) {
                if let Some(i) = st.rfind(')') {
                    let state = st.as_bytes().get(i + 2).copied().unwrap_or(b'?');
                    if state == b'R' || state == b'D' {
                        runnable = true;
                    }
                }
            }
        }
    }
    Some((ticks, runnable))
}

/// A worker that has printed nothing for the watchdog period is a *hang* only if that is not the
/// machine's fault: it has burnt at least half the period in CPU time since its last line (busy
/// loop), or none of its threads is runnable over three samples and its CPU time stands still
/// (parked for good: missed wake-up, deadlock outside thread-sim). A worker that is merely starved
/// of CPU by other jobs keeps its time; 20 watchdog periods of silence end the patience.
fn is_hang(view: &Arc<Mutex<WorkerView>>, watchdog: Duration) -> bool {
    let (pid, cpu0, silent) = {
        let v = view.lock().unwrap();
        (v.pid, v.cpu_ticks, v.last_line_at.map(|t| t.elapsed()).unwrap_or_default())
    };
    if silent > watchdog * 20 {
        return true;
    }
    // SAFETY: sysconf has no preconditions
    let hz = unsafe { libc::sysconf(libc::_SC_CLK_TCK) }.max(1) as u64;
    let Some((c1, r1)) = proc_cpu_and_runnable(pid) else { return false };
    if c1.saturating_sub(cpu0) >= watchdog.as_secs() * hz / 2 {
        return true;
    }
    if r1 {
        return false;
    }
    for _ in 0..2 {
        std::thread::sleep(Duration::from_millis(300));
        match proc_cpu_and_runnable(pid) {
            Some((c, r)) if !r && c == c1 => {}
            _ => return false,
        }
    }
    // still silent? (a line may have arrived while sampling)
    view.lock().unwrap().last_line_at.map(|t| t.elapsed() > watchdog).unwrap_or(false)
}

fn read_worker_stdout(stdout: impl Read, view: Arc<Mutex<WorkerView>>) {
    let r = BufReader::with_capacity(1 << 16, stdout);
    for line in r.split(b'\n') {
        let Ok(line) = line else { break };
        if line.len() < 2 {
            continue;
        }
        let tag = line[0];
        let rest = String::from_utf8_lossy(&line[2..]).into_owned();
        let mut v = view.lock().unwrap();
        v.last_line_at = Some(Instant::now());
        if v.cpu_sampled_at.map(|t| t.elapsed() > Duration::from_millis(200)).unwrap_or(true) {
            if let Some((ticks, _)) = proc_cpu_and_runnable(v.pid) {
                v.cpu_ticks = ticks;
            }
            v.cpu_sampled_at = Some(Instant::now());
        }
        match tag {
            b'S' => {
                v.last_idx = rest.trim().parse().ok();
                v.subs_seen = 0;
                v.last_sub = None;
            }
            b's' => {
                v.subs_seen += 1;
                v.last_sub = Some(rest);
            }
            b'V' => match serde_json::from_str::<Value>(&rest) {
                Ok(j) => {
                    let idx = j["idx"].as_u64().unwrap_or(0);
                    match serde_json::from_value::<Violation>(j["violation"].clone()) {
                        Ok(violation) => v.findings.push((
                            idx,
                            Finding {
                                violation,
                                plan: j["plan"].clone(),
                            },
                        )),
                        Err(e) => v.harness_errors.push(format!("bad V line: {e}")),
                    }
                }
                Err(e) => v.harness_errors.push(format!("bad V line: {e}")),
            },
            b'H' => v.harness_errors.push(rest),
            b'D' => match serde_json::from_str::<Stats>(&rest) {
                Ok(s) => {
                    v.stats = Some(s);
                    v.done = true;
                }
                Err(e) => v.harness_errors.push(format!("bad D line: {e}")),
            },
            _ => {}
        }
    }
}

fn classify_crash(status: &std::process::ExitStatus, stderr_tail: &str, hang: bool) -> (String, String) {
    use std::os::unix::process::ExitStatusExt;
    if hang {
        return ("hang".into(), "watchdog".into());
    }
    let t = stderr_tail;
    let witness = if t.contains("memory allocation of") {
        "allocation-failure".to_string()
    } else if t.contains("has overflowed its stack") || t.contains("stack overflow") {
        "stack-overflow".to_string()
    } else if t.contains("SIM DEADLOCK") {
        "deadlock".to_string()
    } else if t.contains("panic in a function that cannot unwind")
        || t.contains("panicked while processing panic")
        || t.contains("panic in a destructor during cleanup")
    {
        "double-panic".to_string()
    } else if let Some(sig) = status.signal() {
        format!("signal-{sig}")
    } else {
        format!("exit-{}", status.code().unwrap_or(-1))
    };
    ("abort".into(), witness)
}

pub struct ExecResult {
    pub findings: Vec<Finding>,
    pub harness_errors: Vec<String>,
}

/// Executes one plan in a fresh process (`nsim exec <id> <planfile>`); an abnormal death or a hang
/// of that process is itself turned into a finding.
pub fn exec_plan(check: &dyn Check, plan: &Value, scratch: &Path) -> ExecResult {
    let exe = std::env::current_exe().expect("current_exe");
    let path = scratch.join(format!("plan-{}.json", std::process::id()));
    // (the scratch directory lives under the system temp dir: recreate it if a cleaner removed it)
    let _ = std::fs::create_dir_all(scratch);
    std::fs::write(&path, serde_json::to_vec(plan).unwrap()).expect("write plan");
    let mut child = Command::new(exe)
        .arg("exec")
        .arg(check.id())
        .arg(&path)
        .env("RUST_BACKTRACE", "0")
        .stdin(Stdio::null())
        .stdout(Stdio::piped())
        .stderr(Stdio::piped())
        .spawn()
        .expect("spawn exec");
    let view = Arc::new(Mutex::new(WorkerView {
        last_line_at: Some(Instant::now()),
        pid: child.id(),
        ..Default::default()
    }));
    let stdout = child.stdout.take().unwrap();
    let mut stderr = child.stderr.take().unwrap();
    let v2 = view.clone();
    let t1 = std::thread::spawn(move || read_worker_stdout(stdout, v2));
    let t2 = std::thread::spawn(move || {
        let mut s = Vec::new();
        let _ = stderr.read_to_end(&mut s);
        s
    });
    let watchdog = Duration::from_secs(check.watchdog_s());
    let mut hang = false;
    let status = loop {
        match child.try_wait() {
            Ok(Some(st)) => break st,
            Ok(None) => {
                let stale = view.lock().unwrap().last_line_at.map(|t| t.elapsed() > watchdog).unwrap_or(false);
                if stale && is_hang(&view, watchdog) {
                    hang = true;
                    let _ = child.kill();
                    break child.wait().expect("wait");
                }
                std::thread::sleep(Duration::from_millis(2));
            }
            Err(e) => panic!("try_wait: {e}"),
        }
    };
    let _ = t1.join();
    let err = t2.join().unwrap_or_default();
    let _ = std::fs::remove_file(&path);
    let mut v = view.lock().unwrap();
    let mut findings: Vec<Finding> = v.findings.drain(..).map(|(_, f)| f).collect();
    let mut harness_errors = std::mem::take(&mut v.harness_errors);
    if !v.done {
        let tail = String::from_utf8_lossy(&err).into_owned();
        if !hang && status.code() == Some(2) {
            harness_errors.push(format!("exec exited 2: {tail}"));
        } else {
            let (class, witness) = classify_crash(&status, &tail, hang);
            let sub_plan = v
                .last_sub
                .as_ref()
                .and_then(|s| serde_json::from_str::<Value>(s).ok())
                .unwrap_or_else(|| plan.clone());
            findings.push(Finding {
                violation: Violation {
                    component: crash_component(&sub_plan),
                    class,
                    witness,
                    message: last_lines(&tail, 3),
                },
                plan: sub_plan,
            });
        }
    }
    ExecResult {
        findings,
        harness_errors,
    }
}

fn crash_component(plan: &Value) -> String {
    plan.get("component")
        .and_then(|v| v.as_str())
        .or_else(|| plan.get("kind").and_then(|v| v.as_str()))
        .unwrap_or("?")
        .to_string()
}

fn last_lines(s: &str, n: usize) -> String {
    let lines: Vec<&str> = s.lines().filter(|l| !l.trim().is_empty()).collect();
    let k = lines.len().saturating_sub(n);
    lines[k..].join(" / ")
}

struct Grouped {
    signature: String,
    count: u64,
    first_idx: u64,
    finding: Finding,
}

pub fn run_check(check: &dyn Check, opts: &Options) -> i32 {
    let t0 = Instant::now();
    let id = check.id();
    let n_cases = opts
        .limit
        .unwrap_or_else(|| check.n_cases(opts.tier))
        .min(check.n_cases(opts.tier));
    let n_workers = (opts.workers as u64).min(n_cases.max(1));
    println!(
        "nsim: check {id} tier={} seed={} cases={} workers={}",
        opts.tier.name(),
        opts.seed,
        n_cases,
        n_workers
    );

    let known = match KnownFindings::load(&opts.verif_dir.join("known_findings.json")) {
        Ok(k) => k,
        Err(e) => {
            eprintln!("nsim: harness error: {e}");
            return 2;
        }
    };

    let scratch = std::env::temp_dir().join(format!("nsim-{}-{}", id, std::process::id()));
    let _ = std::fs::create_dir_all(&scratch);

    // The cases are cut into more slices than there are worker processes (slice j = cases with
    // idx % n_slices == j) and at most n_workers slices run at a time: one expensive case then
    // delays only its own small slice.  Which slice runs when has no influence on any result.
    let n_slices = (n_workers * 6).min(n_cases.max(1));
    let mut pending: std::collections::VecDeque<u64> = (0..n_slices).collect();
    let mut workers: Vec<Worker> = Vec::new();

    let mut total = Stats::default();
    let mut all_findings: Vec<(u64, Finding)> = Vec::new();
    let mut harness_errors: Vec<String> = Vec::new();
    let mut crashes = 0u64;
    let mut hangs = 0u64;
    let watchdog = Duration::from_secs(check.watchdog_s());

    while !workers.is_empty() || !pending.is_empty() {
        while (workers.len() as u64) < n_workers {
            let Some(j) = pending.pop_front() else { break };
            match spawn_worker(id, opts, j, n_slices, 0, 0) {
                Ok(w) => workers.push(w),
                Err(e) => {
                    eprintln!("nsim: harness error: cannot spawn worker: {e}");
                    return 2;
                }
            }
        }
        let mut i = 0;
        let mut progressed = false;
        while i < workers.len() {
            let w = &mut workers[i];
            let mut hang = false;
            let exited = match w.child.try_wait() {
                Ok(Some(st)) => Some(st),
                Ok(None) => {
                    let stale = {
                        let v = w.view.lock().unwrap();
                        v.last_line_at.map(|t| t.elapsed() > watchdog).unwrap_or(false) && !v.done
                    };
                    if stale && is_hang(&w.view, watchdog) {
                        hang = true;
                        let _ = w.child.kill();
                        Some(w.child.wait().expect("wait"))
                    } else {
                        None
                    }
                }
                Err(e) => {
                    eprintln!("nsim: harness error: try_wait: {e}");
                    return 2;
                }
            };
            let Some(status) = exited else {
                i += 1;
                continue;
            };
            progressed = true;
            let mut w = workers.swap_remove(i);
            for r in w.readers.drain(..) {
                let _ = r.join();
            }
            let mut v = w.view.lock().unwrap();
            all_findings.append(&mut v.findings);
            harness_errors.append(&mut v.harness_errors);
            if let Some(s) = v.stats.take() {
                total.merge(s);
            }
            if !v.done {
                // abnormal death or hang: attribute to the announced (sub-)case, then resume
                let tail = String::from_utf8_lossy(&w.stderr_tail.lock().unwrap()).into_owned();
                if !hang && status.code() == Some(2) {
                    harness_errors.push(format!("worker exited 2: {}", last_lines(&tail, 5)));
                    continue;
                }
                let Some(idx) = v.last_idx else {
                    harness_errors.push(format!(
                        "worker died before announcing a case: {}",
                        last_lines(&tail, 5)
                    ));
                    continue;
                };
                crashes += 1;
                let (class, witness) = classify_crash(&status, &tail, hang);
                let plan = v
                    .last_sub
                    .as_ref()
                    .and_then(|s| serde_json::from_str::<Value>(s).ok())
                    .unwrap_or_else(|| check.plan(opts.seed, idx, opts.tier));
                all_findings.push((
                    idx,
                    Finding {
                        violation: Violation {
                            component: crash_component(&plan),
                            class,
                            witness,
                            message: last_lines(&tail, 3),
                        },
                        plan,
                    },
                ));
                // statistics of the dead worker are lost (conservative); resume after the culprit
                // after an abort the rest of the case still runs (skipping the culprit); after a
                // hang the rest of the case is skipped: neighbouring sub-cases tend to hang as well
                // and each costs a full watchdog period
                let (from, skip) = if check.announce() && v.subs_seen > 0 && !hang {
                    (idx, v.subs_seen)
                } else {
                    (idx + n_slices, 0)
                };
                if hang {
                    hangs += 1;
                    if hangs > 24 {
                        println!("nsim: more than 24 hangs; the remaining cases of this worker's slice are not run");
                        continue;
                    }
                }
                if crashes > 5000 {
                    harness_errors.push("more than 5000 worker deaths; giving up resuming".into());
                    continue;
                }
                match spawn_worker(id, opts, w.slice_index, n_slices, from, skip) {
                    Ok(nw) => workers.push(nw),
                    Err(e) => harness_errors.push(format!("cannot respawn worker: {e}")),
                }
            }
        }
        if !progressed {
            std::thread::sleep(Duration::from_millis(20));
        }
    }

    // ---- group findings by signature
    all_findings.sort_by_key(|(idx, _)| *idx);
    let mut groups: BTreeMap<String, Grouped> = BTreeMap::new();
    for (idx, f) in all_findings {
        let sig = f.violation.signature(id);
        groups
            .entry(sig.clone())
            .and_modify(|g| g.count += 1)
            .or_insert(Grouped {
                signature: sig,
                count: 1,
                first_idx: idx,
                finding: f,
            });
    }

    let replay_dir = opts.verif_dir.join("replays");
    let _ = std::fs::create_dir_all(&replay_dir);

    let mut violations = 0u64;
    let mut known_hit: Vec<Value> = Vec::new();
    let mut matched_known: std::collections::BTreeSet<String> = Default::default();
    let mut unreproduced_hangs = 0u64;
    let mut reported: Vec<Value> = Vec::new();
    let mut min_budget_total = 3000i64;

    for g in groups.values() {
        let sig = &g.signature;
        let is_known = known.lookup(id, sig);
        // minimise (bounded), keeping the same signature
        let mut plan = g.finding.plan.clone();
        let mut violation = g.finding.violation.clone();
        let mut executions = 0u32;
        if opts.minimise && is_known.is_none() {
            let mut budget = 300i64.min(min_budget_total);
            'outer: loop {
                let cands = check.shrink(&plan);
                let mut improved = false;
                for c in cands {
                    if budget <= 0 {
                        break 'outer;
                    }
                    budget -= 1;
                    min_budget_total -= 1;
                    executions += 1;
                    let r = exec_plan(check, &c, &scratch);
                    if let Some(f) = r.findings.into_iter().find(|f| &f.violation.signature(id) == sig) {
                        plan = f.plan;
                        violation = f.violation;
                        improved = true;
                        break;
                    }
                }
                if !improved {
                    break;
                }
            }
        }
        // replay-verify in a fresh process
        let r = exec_plan(check, &plan, &scratch);
        let reproduced = r.findings.iter().any(|f| &f.violation.signature(id) == sig);
        if !reproduced {
            // try the un-minimised plan
            let r2 = exec_plan(check, &g.finding.plan, &scratch);
            if r2.findings.iter().any(|f| &f.violation.signature(id) == sig) {
                plan = g.finding.plan.clone();
                violation = g.finding.violation.clone();
            } else if g.finding.violation.class == "hang" {
                // a hang is the one verdict that rests on a timer and on the state of a long-lived
                // worker process (hours of contained panics and refused allocations in the thorough
                // tier of C15): when the announced sub-case terminates in a fresh process it is not
                // a property of the code under test. Reported, counted, not a verdict either way.
                println!(
                    "nsim: warning: a worker was killed as hung in case {} ({sig}); the announced sub-case terminates in a fresh process: no verdict on it",
                    g.first_idx
                );
                unreproduced_hangs += 1;
                continue;
            } else {
                harness_errors.push(format!(
                    "non-deterministic failure: {sig} did not reproduce in a fresh process (case {})",
                    g.first_idx
                ));
                continue;
            }
        }
        if let Some(e) = is_known {
            matched_known.insert(e.signature.clone());
            println!("KNOWN-FINDING: property={id} {} [{sig}] occurrences={}", e.what, g.count);
            known_hit.push(json!({"signature": sig, "occurrences": g.count, "what": e.what}));
            continue;
        }
        violations += 1;
        let fname = format!(
            "{id}-{:016x}.json",
            super::prng::hash_bytes(sig.as_bytes())
        );
        let path = replay_dir.join(fname);
        let replay = json!({
            "version": 1,
            "property": id,
            "seed": opts.seed,
            "tier": opts.tier.name(),
            "case_index": g.first_idx,
            "occurrences": g.count,
            "minimiser_executions": executions,
            "violation": {
                "component": violation.component,
                "class": violation.class,
                "witness": violation.witness,
                "message": violation.message,
                "signature": sig,
            },
            "plan": plan,
        });
        if let Err(e) = std::fs::write(&path, serde_json::to_vec_pretty(&replay).unwrap()) {
            harness_errors.push(format!("cannot write replay file: {e}"));
        }
        println!("  violation: {sig}: {}", violation.message);
        println!("VIOLATION property={id} replay={}", path.display());
        reported.push(json!({"signature": sig, "occurrences": g.count, "replay": path.display().to_string()}));
    }

    let _ = std::fs::remove_dir_all(&scratch);

    let wall = t0.elapsed().as_secs_f64();
    // a check whose workloads mostly cannot be generated has no verdict to give
    let unbuildable = total.probes.get("workload_unbuildable").copied().unwrap_or(0);
    if unbuildable > 0 {
        println!("nsim: warning: {unbuildable} workloads could not be generated on this tree and were skipped");
        if unbuildable * 2 > n_cases {
            harness_errors.push(format!("{unbuildable} of {n_cases} workloads could not be generated: no verdict"));
        }
    }
    if unreproduced_hangs > 0 {
        println!("nsim: {unreproduced_hangs} hang report(s) did not reproduce in a fresh process and carry no verdict (see the warnings above)");
    }
    // every listed known finding of this property is named on every run; the ones this run did not
    // reach (other seed, other tier) say so
    for e in known.findings.iter().filter(|e| e.status == "known" && e.property == id && !matched_known.contains(&e.signature)) {
        println!("KNOWN-FINDING: property={id} {} [{}] occurrences=0 (listed; not reached by this run)", e.what, e.signature);
    }
    for p in check.expected_probes() {
        if total.probes.get(p).copied().unwrap_or(0) == 0 {
            println!("nsim: warning: probe '{p}' stuck at 0");
        }
    }
    if opts.write_evidence {
        let ev = evidence::build(
            check,
            opts,
            &total,
            wall,
            violations,
            &known_hit,
            &reported,
            crashes,
            &harness_errors,
        );
        let dir = opts.verif_dir.join("evidence");
        let _ = std::fs::create_dir_all(&dir);
        let path = dir.join(format!("{id}.json"));
        if let Err(e) = std::fs::write(&path, serde_json::to_vec_pretty(&ev).unwrap()) {
            eprintln!("nsim: harness error: cannot write evidence: {e}");
            return 2;
        }
    }
    println!(
        "nsim: {id}: evaluations={} distinct_nontrivial={} steps={} violations={} known={} wall={:.1}s",
        total.evaluations,
        total.nontrivial.len(),
        total.steps,
        violations,
        known_hit.len(),
        wall
    );
    if !harness_errors.is_empty() {
        for e in harness_errors.iter().take(10) {
            eprintln!("nsim: harness error: {e}");
        }
        if violations == 0 {
            return 2;
        }
    }
    if violations > 0 { 1 } else { 0 }
}

/// `nsim replay <file>`: executes the stored plan in this (fresh) process.
pub fn replay(check_lookup: &dyn Fn(&str) -> Option<&'static dyn Check>, path: &Path) -> i32 {
    let s = match std::fs::read_to_string(path) {
        Ok(s) => s,
        Err(e) => {
            eprintln!("nsim: cannot read {}: {e}", path.display());
            return 2;
        }
    };
    let j: Value = match serde_json::from_str(&s) {
        Ok(j) => j,
        Err(e) => {
            eprintln!("nsim: bad replay file: {e}");
            return 2;
        }
    };
    let id = j["property"].as_str().unwrap_or("");
    let Some(check) = check_lookup(id) else {
        eprintln!("nsim: unknown property {id}");
        return 2;
    };
    let want = j["violation"]["signature"].as_str().unwrap_or("").to_string();
    let scratch = std::env::temp_dir().join(format!("nsim-replay-{}", std::process::id()));
    let _ = std::fs::create_dir_all(&scratch);
    let r = exec_plan(check, &j["plan"], &scratch);
    let _ = std::fs::remove_dir_all(&scratch);
    let mut same = false;
    for f in &r.findings {
        let sig = f.violation.signature(id);
        println!("  reproduced: {sig}: {}", f.violation.message);
        if sig == want {
            same = true;
        }
    }
    for e in &r.harness_errors {
        eprintln!("nsim: harness error: {e}");
    }
    if same {
        println!("VIOLATION property={id} replay={}", path.display());
        1
    } else if r.findings.is_empty() {
        println!("nsim: replay of {} did not reproduce (property holds on this plan)", path.display());
        0
    } else {
        println!("nsim: replay produced a different violation than recorded ({want})");
        1
    }
}
