//! VCF model generator: VCF text (header + record lines) written by harness code only; the model
//! of "what was written" for VCF, VCF.gz and BCF.

use serde::{Deserialize, Serialize};

use crate::kernel::Rng;

#[derive(Clone, Debug, Serialize, Deserialize, PartialEq)]
pub struct VcfParams {
    pub seed: u64,
    pub n_contigs: usize,
    pub n_samples: usize,
    pub n_records: usize,
    pub sorted: bool,
    pub rich: bool,
}

#[derive(Clone, Debug)]
pub struct VcfModel {
    pub header: String,
    pub records: Vec<String>,
    pub contigs: Vec<(String, usize)>,
}

/// What noodles' VCF writer makes of a record line: non-ASCII characters in values are
/// percent-encoded byte by byte (the harness text keeps them raw).
pub fn canonical_line(line: &str) -> String {
    let mut out = String::with_capacity(line.len());
    for ch in line.chars() {
        if ch.is_ascii() {
            out.push(ch);
        } else {
            let mut b = [0u8; 4];
            for byte in ch.encode_utf8(&mut b).bytes() {
                out.push_str(&format!("%{byte:02X}"));
            }
        }
    }
    out
}

impl VcfModel {
    pub fn text_crlf(&self) -> String {
        self.text().replace('\n', "\r\n")
    }

    pub fn text(&self) -> String {
        let mut s = self.header.clone();
        for r in &self.records {
            s.push_str(r);
            s.push('\n');
        }
        s
    }
}

pub fn gen_params(rng: &mut Rng, size_class: u8) -> VcfParams {
    let n_records = match size_class {
        0 => rng.usize_below(4),
        1 => 1 + rng.usize_below(12),
        2 => 10 + rng.usize_below(80),
        _ => 300 + rng.usize_below(2500),
    };
    VcfParams {
        seed: rng.next_u64(),
        n_contigs: 1 + rng.usize_below(4),
        n_samples: rng.usize_below(4),
        n_records,
        sorted: rng.bool(),
        rich: rng.chance(3, 4),
    }
}

struct InfoDef {
    id: &'static str,
    number: &'static str,
    ty: &'static str,
}

const INFOS: &[InfoDef] = &[
    InfoDef { id: "NS", number: "1", ty: "Integer" },
    InfoDef { id: "DP", number: "1", ty: "Integer" },
    // reserved key: the end position of the variant (drives rlen in BCF, the span used by the
    // indexers and by region queries); always >= POS + len(REF) - 1 here
    InfoDef { id: "END", number: "1", ty: "Integer" },
    InfoDef { id: "AF", number: "A", ty: "Float" },
    InfoDef { id: "DB", number: "0", ty: "Flag" },
    InfoDef { id: "AA", number: "1", ty: "String" },
    InfoDef { id: "XI", number: ".", ty: "Integer" },
    InfoDef { id: "XS", number: ".", ty: "String" },
    InfoDef { id: "XF", number: "2", ty: "Float" },
    InfoDef { id: "XC", number: "1", ty: "Character" },
];

const FORMATS: &[InfoDef] = &[
    InfoDef { id: "GT", number: "1", ty: "String" },
    InfoDef { id: "GQ", number: "1", ty: "Integer" },
    InfoDef { id: "DP", number: "1", ty: "Integer" },
    InfoDef { id: "HQ", number: "2", ty: "Integer" },
    InfoDef { id: "FS", number: "1", ty: "String" },
    InfoDef { id: "FF", number: "1", ty: "Float" },
];

const FLOATS: &[&str] = &["0.5", "0.25", "12.5", "1", "0", "100.125", "-3.5"];

fn gen_int(rng: &mut Rng) -> String {
    match rng.below(10) {
        0 => "0".into(),
        1 => "127".into(),
        2 => "-120".into(),
        3 => "128".into(),
        4 => "32767".into(),
        5 => "-32760".into(),
        6 => "32768".into(),
        7 => "2000000000".into(),
        _ => rng.irange(-300, 70_000).to_string(),
    }
}

fn gen_str(rng: &mut Rng) -> String {
    let n = 1 + rng.usize_below(8);
    // VCF text is UTF-8: now and then a 2- or 3-byte character inside a string value, so that a
    // delivery boundary can fall inside a multi-byte sequence
    let utf8_at = if rng.chance(1, 6) { Some(rng.usize_below(n)) } else { None };
    let mut s = String::new();
    for i in 0..n {
        if utf8_at == Some(i) {
            s.push(if i % 2 == 0 { 'é' } else { '→' });
        }
        let c = match rng.below(6) {
            0 => b'0' + rng.below(10) as u8,
            1 => b'A' + rng.below(26) as u8,
            2 => *rng.pick(b"_-+|/"),
            _ => b'a' + rng.below(26) as u8,
        };
        s.push(c as char);
    }
    s
}

fn gen_value(rng: &mut Rng, d: &InfoDef, n_alt: usize) -> Option<String> {
    let count = match d.number {
        "0" => return None,
        "1" => 1,
        "2" => 2,
        "A" => n_alt.max(1),
        _ => 1 + rng.usize_below(4),
    };
    let mut parts = Vec::with_capacity(count);
    for _ in 0..count {
        let v = match d.ty {
            "Integer" => gen_int(rng),
            "Float" => (*rng.pick(FLOATS)).to_string(),
            "Character" => ((b'a' + rng.below(26) as u8) as char).to_string(),
            _ => gen_str(rng),
        };
        parts.push(v);
    }
    // a missing element inside a vector
    if count > 1 && rng.chance(1, 8) && d.ty != "String" && d.ty != "Character" {
        let i = rng.usize_below(count);
        parts[i] = ".".into();
    }
    Some(parts.join(","))
}

pub fn generate(p: &VcfParams) -> VcfModel {
    let mut rng = Rng::new(p.seed);
    // chromosome-sized contigs now and then: positions up to 5*10^8 give a tabix/CSI linear index of
    // tens of thousands of 16 KiB windows (an index file of several BGZF blocks)
    let big = p.seed % 6 == 0;
    let contigs: Vec<(String, usize)> = (0..p.n_contigs)
        .map(|i| (format!("sq{i}"), if big { 100_000_000 + rng.usize_below(400_000_000) } else { 1000 + rng.usize_below(1_000_000) }))
        .collect();
    let n_info = if p.rich { 1 + rng.usize_below(INFOS.len()) } else { 2 };
    let n_fmt = if p.rich { 1 + rng.usize_below(FORMATS.len()) } else { 2 };
    let infos = &INFOS[..n_info];
    let formats = &FORMATS[..n_fmt];
    let mut header = String::from("##fileformat=VCFv4.3\n");
    for d in infos {
        header.push_str(&format!(
            "##INFO=<ID={},Number={},Type={},Description=\"info {}\">\n",
            d.id, d.number, d.ty, d.id
        ));
    }
    header.push_str("##FILTER=<ID=PASS,Description=\"All filters passed\">\n");
    header.push_str("##FILTER=<ID=q10,Description=\"Quality below 10\">\n");
    header.push_str("##FILTER=<ID=s50,Description=\"Less than 50% of samples have data\">\n");
    if p.n_samples > 0 {
        for d in formats {
            header.push_str(&format!(
                "##FORMAT=<ID={},Number={},Type={},Description=\"format {}\">\n",
                d.id, d.number, d.ty, d.id
            ));
        }
    }
    for (name, len) in &contigs {
        header.push_str(&format!("##contig=<ID={name},length={len}>\n"));
    }
    header.push_str("#CHROM\tPOS\tID\tREF\tALT\tQUAL\tFILTER\tINFO");
    if p.n_samples > 0 {
        header.push_str("\tFORMAT");
        for i in 0..p.n_samples {
            header.push_str(&format!("\tsample{i}"));
        }
    }
    header.push('\n');

    let mut recs: Vec<(usize, usize, String)> = Vec::with_capacity(p.n_records);
    for _ in 0..p.n_records {
        let ci = rng.usize_below(contigs.len());
        let pos = 1 + rng.usize_below(contigs[ci].1);
        let id = if rng.chance(2, 3) { ".".to_string() } else { format!("rs{}", rng.below(1_000_000)) };
        let ref_len = if rng.chance(4, 5) { 1 } else { 1 + rng.usize_below(12) };
        let refb: String = (0..ref_len).map(|_| *rng.pick(b"ACGT") as char).collect();
        let n_alt = match rng.below(8) {
            0 => 0,
            1..=5 => 1,
            _ => 2 + rng.usize_below(2),
        };
        let alts: Vec<String> = (0..n_alt)
            .map(|_| {
                let l = if rng.chance(4, 5) { 1 } else { 1 + rng.usize_below(8) };
                (0..l).map(|_| *rng.pick(b"ACGT") as char).collect()
            })
            .collect();
        let alt = if alts.is_empty() { ".".to_string() } else { alts.join(",") };
        let qual = match rng.below(5) {
            0 => ".".to_string(),
            1 => (*rng.pick(&["12.5", "0.5", "99.25"])).to_string(),
            _ => rng.below(100).to_string(),
        };
        let filter = match rng.below(6) {
            0 => ".".to_string(),
            1 => "q10".to_string(),
            2 => "q10;s50".to_string(),
            _ => "PASS".to_string(),
        };
        let mut info_parts: Vec<String> = Vec::new();
        for d in infos {
            if d.id == "END" {
                if rng.chance(1, 3) {
                    let end = pos + ref_len - 1 + if rng.chance(1, 2) { rng.usize_below(2000) } else { 0 };
                    info_parts.push(format!("END={end}"));
                }
            } else if rng.chance(1, 2) {
                match gen_value(&mut rng, d, n_alt) {
                    None => info_parts.push(d.id.to_string()),
                    Some(v) => info_parts.push(format!("{}={}", d.id, v)),
                }
            }
        }
        let info = if info_parts.is_empty() { ".".to_string() } else { info_parts.join(";") };
        let mut line = format!("{}\t{pos}\t{id}\t{refb}\t{alt}\t{qual}\t{filter}\t{info}", contigs[ci].0);
        if p.n_samples > 0 {
            // keys: GT first if present
            let mut keys: Vec<&InfoDef> = Vec::new();
            for d in formats {
                if d.id == "GT" {
                    if rng.chance(5, 6) {
                        keys.push(d);
                    }
                } else if rng.chance(1, 2) {
                    keys.push(d);
                }
            }
            if keys.is_empty() {
                keys.push(&formats[0]);
            }
            line.push('\t');
            line.push_str(&keys.iter().map(|d| d.id).collect::<Vec<_>>().join(":"));
            for _ in 0..p.n_samples {
                line.push('\t');
                let mut vals: Vec<String> = Vec::new();
                for d in &keys {
                    if d.id == "GT" {
                        let na = n_alt + 1;
                        let a = rng.usize_below(na);
                        let b = rng.usize_below(na);
                        let gt = match rng.below(8) {
                            0 => "./.".to_string(),
                            1 => format!("{a}"),
                            2 | 3 => format!("{a}|{b}"),
                            _ => format!("{a}/{b}"),
                        };
                        vals.push(gt);
                    } else if false {
                        // whole-value "." in samples is outside the domain on which BCF round-trips
                        vals.push(".".into());
                    } else {
                        vals.push(gen_value(&mut rng, d, n_alt).unwrap_or_else(|| ".".into()));
                    }
                }
                line.push_str(&vals.join(":"));
            }
        }
        recs.push((ci, pos, line));
    }
    if p.sorted {
        recs.sort_by_key(|r| (r.0, r.1));
    }
    VcfModel {
        header,
        records: recs.into_iter().map(|r| r.2).collect(),
        contigs,
    }
}
