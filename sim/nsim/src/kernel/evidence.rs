//! Evidence file writer (/verif/evidence/<id>.json, EVIDENCE.schema.json).

use serde_json::{Value, json};

use super::{Check, Stats, orchestrator::Options};

#[allow(clippy::too_many_arguments)]
pub fn build(
    check: &dyn Check,
    opts: &Options,
    total: &Stats,
    wall_s: f64,
    violations: u64,
    known_hit: &[Value],
    reported: &[Value],
    worker_deaths: u64,
    harness_errors: &[String],
) -> Value {
    let mut sets = serde_json::Map::new();
    for (k, s) in &total.sets {
        sets.insert(k.clone(), json!(s.len()));
    }
    let runs_per_hour = if wall_s > 0.0 {
        (total.evaluations as f64 / wall_s * 3600.0) as u64
    } else {
        0
    };
    let mut rule = check.rule();
    if total.nontrivial_overflow {
        rule.push_str(" (distinct set capped; counted conservatively)");
    }
    let stuck: Vec<&str> = check
        .expected_probes()
        .into_iter()
        .filter(|p| total.probes.get(*p).copied().unwrap_or(0) == 0)
        .collect();
    json!({
        "property_id": check.id(),
        "tier": opts.tier.name(),
        "seed": opts.seed,
        "level": check.level(),
        "coverage": {
            "evaluations": total.evaluations,
            "distinct_nontrivial": total.nontrivial.len(),
            "rule": rule,
            "samples": total.samples,
            "exhaustive": false,
            "exhaustive_subspaces": total.exhaustive.iter().take(200).collect::<Vec<_>>(),
            "exhaustive_subspaces_count": total.exhaustive.len(),
            "simulated_steps": total.steps,
            "runs_per_hour": runs_per_hour,
            "seeds": {"master": opts.seed, "cases": opts.limit.unwrap_or(check.n_cases(opts.tier)).min(check.n_cases(opts.tier))},
            "fault_counts": total.faults,
            "probes": total.probes,
            "probes_stuck_at_zero": stuck,
            "distinct_sets": Value::Object(sets),
            "evaluations_per_kind": total.per_kind,
            "components": check.components(),
            "known_findings_hit": known_hit,
            "violations_reported": reported,
            "worker_deaths_attributed": worker_deaths,
            "harness_errors": harness_errors.len(),
            "workers": opts.workers,
        },
        "assumptions": check.assumptions(),
        "wall_s": (wall_s * 1000.0).round() / 1000.0,
        "violations": violations,
    })
}
