//! Byte payload generator: class × length × seed → bytes (pure).

use serde::{Deserialize, Serialize};

use crate::kernel::Rng;

#[derive(Clone, Copy, Debug, Serialize, Deserialize, PartialEq, Eq)]
pub enum Class {
    Zeros,
    Text,
    Random,
    Mixed,
    /// bytes equal to their offset (mod 251): every byte is attributable to its position
    Ramp,
}

pub const CLASSES: [Class; 5] = [
    Class::Zeros,
    Class::Text,
    Class::Random,
    Class::Mixed,
    Class::Ramp,
];

#[derive(Clone, Debug, Serialize, Deserialize, PartialEq, Eq)]
pub struct Payload {
    pub class: Class,
    pub len: usize,
    pub seed: u64,
}

impl Payload {
    pub fn bytes(&self) -> Vec<u8> {
        let mut rng = Rng::new(self.seed);
        let n = self.len;
        match self.class {
            Class::Zeros => vec![0; n],
            Class::Random => rng.bytes(n),
            Class::Ramp => (0..n).map(|i| (i % 251) as u8).collect(),
            Class::Text => {
                const WORDS: [&str; 8] = [
                    "chr1\t", "ACGTACGT", "100\t", "255\t", "*\t", "NM:i:0\n", "read", "IIIIFFFF",
                ];
                let mut v = Vec::with_capacity(n + 16);
                while v.len() < n {
                    v.extend_from_slice(WORDS[rng.usize_below(WORDS.len())].as_bytes());
                }
                v.truncate(n);
                v
            }
            Class::Mixed => {
                let mut v = Vec::with_capacity(n + 1024);
                while v.len() < n {
                    let run = 1 + rng.usize_below(20_000);
                    match rng.below(3) {
                        0 => v.extend(std::iter::repeat_n(rng.below(256) as u8, run)),
                        1 => v.extend(rng.bytes(run)),
                        _ => {
                            for i in 0..run {
                                v.push(b"ACGT"[(i + run) % 4]);
                            }
                        }
                    }
                }
                v.truncate(n);
                v
            }
        }
    }
}

/// Total-size classes around the BGZF limits.
pub fn interesting_len(rng: &mut Rng, max: usize) -> usize {
    const SPECIAL: [usize; 14] = [
        0, 1, 2, 255, 65279, 65280, 65281, 65494, 65495, 65496, 65535, 65536, 65537, 130990,
    ];
    let n = match rng.below(10) {
        0..=2 => *rng.pick(&SPECIAL),
        3 => {
            let k = 1 + rng.usize_below(5);
            (k * 65495).wrapping_add(rng.usize_below(3)).wrapping_sub(1)
        }
        4..=6 => rng.usize_below(2000),
        7 | 8 => rng.usize_below(70_000),
        _ => rng.usize_below(max + 1),
    };
    n.min(max)
}
