//! C03 — multithreaded BGZF I/O equals single-threaded I/O under every schedule (thread-sim).
//! The real `MultithreadedWriter` / `MultithreadedReader` run on real OS threads serialised by the
//! baton scheduler in the crossbeam shim; every channel operation, thread start, join, pool
//! pick-up and sink/source call is a scheduling point decided by a seeded strategy.

use std::io::{self, BufRead, Read, Seek, SeekFrom, Write};
use std::sync::Arc;

use crossbeam_channel::sim::{self, PickPolicy, Strategy, ThreadPolicy};
use noodles_bgzf::{self as bgzf, VirtualPosition, gzi, io::Seek as _};
use serde::{Deserialize, Serialize};
use serde_json::{Value, json};

use super::c01::{self, Op, plan_hash};
use super::c02::{self, BgzfUnderTest, Layout, ROp};
use crate::{
    genr::bytes::{CLASSES, Payload},
    kernel::{Check, Finding, Fnv, Rng, RunCtx, Stats, Tier, Violation, prng, worker},
    model::bgzf::walk,
    seams::read::{Chunking, Eintr, ReadPlan, SimRead},
    seams::write::{Fault, Kind as EKind, Short, SimWrite, WEintr, WritePlan},
};

pub struct C03;

#[derive(Clone, Debug, Serialize, Deserialize, PartialEq)]
pub enum Sched {
    Random,
    Pct { depth: u8 },
    /// the caller runs until it blocks (fills the in-flight window), workers pick LIFO
    FillThenLifo,
    /// caller first; workers pick by a cyclic index pattern (forced completion permutations)
    Pattern { picks: Vec<u32> },
    /// highest-numbered enabled thread first (background threads race ahead)
    BackgroundFirst,
}

#[derive(Clone, Debug, Serialize, Deserialize, PartialEq)]
pub enum Scenario {
    Writer {
        level: Option<u8>,
        payload: Payload,
        ops: Vec<Op>,
        /// true: finish(); false: drop without finish
        finish: bool,
    },
    Reader {
        layout: Layout,
        ops: Vec<ROp>,
        /// true: finish(); false: drop
        finish: bool,
    },
}

#[derive(Clone, Debug, Serialize, Deserialize, PartialEq)]
pub enum MtFault {
    None,
    /// writer: the k-th sink call fails
    SinkFail { k: u64, sticky: bool },
    /// reader: the source fails hard once offset `at` is reached
    SourceErr { at: usize },
    /// reader: block `j` (mod #blocks) is corrupted: 0 = CRC, 1 = deflate data, 2 = ISIZE
    CorruptBlock { j: usize, how: u8 },
}

#[derive(Clone, Debug, Serialize, Deserialize)]
pub struct Plan {
    pub kind: String,
    pub pool: usize,
    pub sched: Sched,
    pub sched_seed: u64,
    pub scenario: Scenario,
    pub fault: MtFault,
    /// explicit decision list (reified schedule of a failing run); overrides `sched` while it lasts
    #[serde(default)]
    pub replay: Option<Vec<u32>>,
    /// 0: the sink accepts / the source delivers everything asked for; otherwise the seed of a
    /// short-write + Interrupted pattern (writer sink) or short-read + Interrupted pattern (reader
    /// source).  Neither may change any result.
    #[serde(default)]
    pub io: u64,
}

/// Short transfers are kept >= ~1000 bytes on average so that the step bound (a liveness oracle)
/// stays meaningful: every sink/source call is a scheduling point.
fn io_write_plan(io: u64, wp: &mut WritePlan) {
    if io == 0 {
        return;
    }
    let mut r = Rng::new(io);
    wp.short = match r.below(3) {
        0 => Short::Random { max: 2000 + r.usize_below(40_000), seed: r.next_u64() },
        1 => Short::Sparse { seed: r.next_u64(), one_in: 2 + r.below(4) },
        _ => Short::Random { max: 30_000 + r.usize_below(40_000), seed: r.next_u64() },
    };
    if r.bool() {
        wp.eintr = WEintr::Random { seed: r.next_u64(), one_in: 2 + r.below(5) };
    }
}

fn io_read_plan(io: u64, rp: &mut ReadPlan) {
    if io == 0 {
        return;
    }
    let mut r = Rng::new(io);
    rp.chunking = match r.below(3) {
        0 => Chunking::Random { max: 2000 + r.usize_below(40_000), seed: r.next_u64() },
        1 => Chunking::Sparse { seed: r.next_u64(), one_in: 2 + r.below(4) },
        _ => Chunking::Random { max: 30_000 + r.usize_below(40_000), seed: r.next_u64() },
    };
    if r.bool() {
        rp.eintr = Eintr::Random { seed: r.next_u64(), one_in: 2 + r.below(5) };
    }
}

fn strategy(p: &Plan, n_steps_hint: u64) -> Strategy {
    let mut rng = Rng::new(p.sched_seed);
    let (threads, picks) = match &p.sched {
        Sched::Random => (ThreadPolicy::Random, PickPolicy::Random),
        Sched::Pct { depth } => {
            let pts = (0..*depth).map(|_| 1 + rng.below(n_steps_hint.max(2))).collect();
            (ThreadPolicy::Pct { change_points: pts }, PickPolicy::Random)
        }
        Sched::FillThenLifo => (ThreadPolicy::LowestFirst, PickPolicy::Lifo),
        Sched::Pattern { picks } => (ThreadPolicy::LowestFirst, PickPolicy::Pattern(picks.clone())),
        Sched::BackgroundFirst => (ThreadPolicy::HighestFirst, PickPolicy::Fifo),
    };
    Strategy {
        seed: p.sched_seed,
        threads,
        picks,
        replay: p.replay.clone(),
    }
}

/// Source whose every call is a scheduling point.
struct YieldRead(SimRead);

impl Read for YieldRead {
    fn read(&mut self, buf: &mut [u8]) -> io::Result<usize> {
        sim::yield_now("source.read");
        self.0.read(buf)
    }
}

impl Seek for YieldRead {
    fn seek(&mut self, pos: SeekFrom) -> io::Result<u64> {
        sim::yield_now("source.seek");
        self.0.seek(pos)
    }
}

struct Mt<R>(bgzf::io::MultithreadedReader<R>);

impl<R: Read + Seek + Send + 'static> BgzfUnderTest for Mt<R> {
    fn name(&self) -> &'static str {
        "bgzf::io::MultithreadedReader"
    }
    fn read(&mut self, buf: &mut [u8]) -> io::Result<usize> {
        Read::read(&mut self.0, buf)
    }
    fn read_exact(&mut self, buf: &mut [u8]) -> io::Result<()> {
        Read::read_exact(&mut self.0, buf)
    }
    fn fill_buf(&mut self) -> io::Result<&[u8]> {
        BufRead::fill_buf(&mut self.0)
    }
    fn consume(&mut self, n: usize) {
        BufRead::consume(&mut self.0, n)
    }
    fn vpos(&self) -> u64 {
        u64::from(self.0.virtual_position())
    }
    fn seek_v(&mut self, vp: VirtualPosition) -> io::Result<VirtualPosition> {
        self.0.seek_to_virtual_position(vp)
    }
    fn seek_u(&mut self, index: &gzi::Index, off: u64) -> io::Result<u64> {
        self.0.seek_with_index(index, SeekFrom::Start(off))
    }
}

enum WOut {
    /// every call incl. finish returned Ok: the sink bytes
    Ok(Vec<u8>),
    /// some call returned Err (index of the op, or usize::MAX for finish)
    Err { at: usize, error: String, sink: Vec<u8> },
    /// dropped without finish: the sink bytes
    Dropped(Vec<u8>),
}

fn writer_scenario(level: Option<u8>, data: &[u8], ops: &[Op], finish: bool, sink: SimWrite) -> WOut {
    let builder = bgzf::io::multithreaded_writer::Builder::default();
    let builder = match level {
        Some(l) => builder.set_compression_level(bgzf::io::writer::CompressionLevel::new(l).expect("level")),
        None => builder,
    };
    let mut w = builder.build_from_writer(sink.clone());
    let mut cur = 0usize;
    for (i, op) in ops.iter().enumerate() {
        let r: io::Result<()> = match op {
            Op::Write { len } => {
                let len = (*len).min(data.len() - cur);
                w.write(&data[cur..cur + len]).map(|n| {
                    cur += n.min(len);
                })
            }
            Op::WriteAll { len } => {
                let len = (*len).min(data.len() - cur);
                let r = w.write_all(&data[cur..cur + len]);
                cur += len;
                r
            }
            Op::Flush | Op::TryFinish => w.flush(),
            Op::Tell => Ok(()),
        };
        if let Err(e) = r {
            // the careful user stops at the first error (a failed writer need not stay usable);
            // the value must not be dropped normally either: its Drop would call finish() again
            std::mem::forget(w);
            return WOut::Err {
                at: i,
                error: e.to_string(),
                sink: sink.data(),
            };
        }
    }
    if finish {
        match w.finish() {
            Ok(_) => WOut::Ok(sink.data()),
            Err(e) => WOut::Err {
                at: usize::MAX,
                error: e.to_string(),
                sink: sink.data(),
            },
        }
    } else {
        drop(w);
        WOut::Dropped(sink.data())
    }
}

fn viol(component: &str, class: &str, witness: &str, msg: String) -> Violation {
    Violation::new(component, class, witness, msg)
}

pub struct RunOut {
    pub violation: Option<Violation>,
    pub decisions: Vec<u32>,
    /// sink calls (write + flush) the scenario made (writer scenarios)
    pub sink_calls: u64,
}

impl C03 {
    pub fn run(&self, p: &Plan, stats: &mut Stats) -> RunOut {
        let pool = p.pool.clamp(1, 16);
        match &p.scenario {
            Scenario::Writer {
                level,
                payload,
                ops,
                finish,
            } => {
                let data = payload.bytes();
                let ops = &c01::without_try_finish(ops);
                // reference: the single-threaded writer fed the same history at the same level
                let reference = match c01::run_history(*level, &data, ops, c01::End::Finish, WritePlan::plain()) {
                    Ok(r) => r.sink,
                    Err(_) => {
                        stats.probe("workload_unbuildable", 1);
                        return RunOut { violation: None, decisions: Vec::new(), sink_calls: 0 };
                    }
                };
                let n_blocks = walk(&reference).map(|w| w.members.len()).unwrap_or(1) as u64;
                let mut wp = match &p.fault {
                    MtFault::SinkFail { k, sticky } => WritePlan::with_fault(Fault::FailCall {
                        k: *k,
                        kind: EKind::Other,
                        sticky: *sticky,
                    }),
                    _ => WritePlan::plain(),
                };
                io_write_plan(p.io, &mut wp);
                stats.probe_if("short_or_interrupted_io_under_schedule", p.io != 0);
                let sink = SimWrite::new(wp).with_yield(sim::yield_now);
                let bound = 400 * (n_blocks + ops.len() as u64 + 4) * if p.io != 0 { 8 } else { 1 };
                let strat = strategy(p, 6 * (n_blocks + ops.len() as u64));
                let sink2 = sink.clone();
                worker::set_quiet(true);
                let out = sim::run(strat, pool, bound, || writer_scenario(*level, &data, ops, *finish, sink2));
                worker::set_quiet(false);
                let decisions: Vec<u32> = out.decisions.iter().map(|d| d.1).collect();
                record_schedule(stats, &out.decisions, &out.task_order, out.steps, out.switches, out.max_queue, "writer");
                let c = sink.counters();
                stats.fault("W_FAIL", c.failed.min(1));
                let comp = "bgzf::io::MultithreadedWriter";
                let violation = match out.result {
                    Err(_) => {
                        let pi = worker::take_last_panic();
                        Some(viol(
                            comp,
                            "panic",
                            &pi.as_ref().map(|p| p.witness()).unwrap_or_else(|| "unknown".into()),
                            format!("panic on the caller thread: {}", pi.map(|p| format!("{} {}", p.location, p.message)).unwrap_or_default()),
                        ))
                    }
                    Ok(w) => {
                        let fired = c.failed > 0;
                        match w {
                            WOut::Ok(bytes) => {
                                if fired {
                                    Some(viol(comp, "hidden-failure", "sink-write-failed", format!("sink call {:?} failed but write/flush/finish all returned Ok; sink holds {} of {} bytes", c.first_fail_call, bytes.len(), reference.len())))
                                } else if bytes != reference {
                                    let at = bytes.iter().zip(&reference).position(|(a, b)| a != b).unwrap_or(bytes.len().min(reference.len()));
                                    Some(viol(comp, "output-differs", "vs-single-threaded", format!("multithreaded output ({} bytes) differs from the single-threaded writer's ({} bytes) at offset {at}; completion order {:?}", bytes.len(), reference.len(), &out.task_order)))
                                } else {
                                    None
                                }
                            }
                            WOut::Dropped(bytes) => {
                                if !fired && bytes != reference {
                                    let at = bytes.iter().zip(&reference).position(|(a, b)| a != b).unwrap_or(bytes.len().min(reference.len()));
                                    Some(viol(comp, "output-differs", "drop-vs-single-threaded", format!("dropped without finish: sink holds {} bytes, single-threaded writer gives {} bytes; first difference at {at}", bytes.len(), reference.len())))
                                } else {
                                    check_prefix(comp, &bytes, &reference, fired)
                                }
                            }
                            WOut::Err { at, error, sink } => {
                                if !fired {
                                    Some(viol(comp, "spurious-error", "fault-free-sink", format!("op {at} returned Err({error}) on a fault-free sink")))
                                } else {
                                    stats.probe("sink_failure_surfaced", 1);
                                    stats.probe_if("sink_failure_surfaced_at_finish", at == usize::MAX);
                                    stats.probe_if("error_marker_preserved", error.contains("nsim: injected"));
                                    check_prefix(comp, &sink, &reference, true)
                                }
                            }
                        }
                    }
                };
                RunOut { violation, decisions, sink_calls: c.calls }
            }
            Scenario::Reader { layout, ops, finish } => {
                let built = match c02::build_layout(layout) {
                    Ok(b) => b,
                    Err(_) => {
                        stats.probe("workload_unbuildable", 1);
                        return RunOut { violation: None, decisions: Vec::new(), sink_calls: 0 };
                    }
                };
                let mut file = built.file.clone();
                let mut corrupted_from: Option<(u64, u64)> = None; // flat range that must not be delivered
                let mut rp = ReadPlan::plain();
                // (compressed offset of a block, its flat offset, bytes to read, is it the corrupt one)
                let mut recovery: Vec<(u64, u64, u64, bool)> = Vec::new();
                match &p.fault {
                    MtFault::SourceErr { at } => {
                        let at = at % (file.len() + 1);
                        rp.ioerr_at = Some(at);
                        // data of members that lie completely before `at` is deliverable
                        let m = built.flat.members.iter().find(|m| (m.cpos + m.csize) as usize > at);
                        corrupted_from = Some((m.map(|m| m.ustart).unwrap_or(built.flat.len()), built.flat.len()));
                    }
                    MtFault::CorruptBlock { j, how } => {
                        let data_members: Vec<_> = built.flat.members.iter().filter(|m| m.ulen > 0).collect();
                        if !data_members.is_empty() {
                            let m = data_members[j % data_members.len()];
                            // after the error has surfaced the caller goes on: seeks to the start of
                            // the corrupt block itself (must fail again or give nothing), of its
                            // neighbours and of the first block (must deliver their bytes)
                            let ci = j % data_members.len();
                            for t in [Some(ci), ci.checked_add(1).filter(|&x| x < data_members.len()), ci.checked_sub(1), Some(0)].into_iter().flatten() {
                                let tm = data_members[t];
                                recovery.push((tm.cpos, tm.ustart, tm.ulen.min(300), t == ci));
                            }
                            let s = m.cpos as usize;
                            let e = s + m.csize as usize;
                            match how % 3 {
                                0 => file[e - 8] ^= 0x01,       // CRC32
                                1 => file[s + 18 + (e - s - 26) / 2] ^= 0x10, // deflate data
                                _ => file[e - 4] ^= 0x01,       // ISIZE
                            }
                            corrupted_from = Some((m.ustart, m.ustart + m.ulen));
                            // a flipped bit in deflate data can yield another valid encoding of the
                            // same bytes (e.g. a match distance inside a run of zeros): if the
                            // independent walker still accepts the file with identical content, the
                            // block is not corrupt and nothing is forbidden
                            if walk(&file).map(|w| w.data == built.flat.data).unwrap_or(false) {
                                corrupted_from = None;
                                stats.probe("corruption_ineffective_same_content", 1);
                            }
                        }
                    }
                    _ => {}
                }
                let index = c02::make_index(&built.flat, false).expect("gzi");
                let file = Arc::new(file);
                let n_blocks = built.flat.members.len() as u64;
                io_read_plan(p.io, &mut rp);
                stats.probe_if("short_or_interrupted_io_under_schedule", p.io != 0);
                let bound = 600 * (n_blocks + ops.len() as u64 + 4) * if p.io != 0 { 8 } else { 1 };
                let strat = strategy(p, 8 * (n_blocks + ops.len() as u64));
                let flat = built.flat.clone();
                let ops2 = ops.clone();
                let fin = *finish;
                let tells: Vec<u64> = built.tells.iter().map(|t| t.0).collect();
                worker::set_quiet(true);
                let out = sim::run(strat, pool, bound, move || {
                    let src = YieldRead(SimRead::new(file, rp));
                    let mut r = Mt(bgzf::io::MultithreadedReader::new(src));
                    let h = c02::run_reader_history_with(&mut r, &flat, &index, &ops2, tells, corrupted_from);
                    // recovery after a surfaced corruption error: the reader object stays in use
                    let mut rec: Option<String> = None;
                    if matches!(&h, Err((c, _, _)) if c == "unexpected-error") {
                        use c02::BgzfUnderTest as _;
                        for &(cpos, ustart, n, is_corrupt) in &recovery {
                            let Ok(vp) = bgzf::VirtualPosition::try_from((cpos, 0u16)) else { continue };
                            if let Err(e) = r.seek_v(vp) {
                                if !is_corrupt {
                                    rec = Some(format!("after the error, seek to the intact block at {cpos} failed: {e}"));
                                    break;
                                }
                                continue;
                            }
                            let mut buf = vec![0u8; n as usize];
                            match r.read_exact(&mut buf) {
                                Ok(()) if is_corrupt => {
                                    rec = Some(format!("after the error, a seek to the corrupt block at {cpos} and read_exact({n}) delivered data"));
                                    break;
                                }
                                Ok(()) => {
                                    if buf[..] != flat.data[ustart as usize..(ustart + n) as usize] {
                                        rec = Some(format!("after the error, seek to the intact block at {cpos} + read_exact({n}) delivered bytes that are not the block's (flat offset {ustart})"));
                                        break;
                                    }
                                }
                                Err(e) if !is_corrupt => {
                                    // the block holds at least n bytes: nothing of the corrupt block is needed
                                    rec = Some(format!("after the error, seek to the intact block at {cpos} + read_exact({n}) failed: {e}"));
                                    break;
                                }
                                Err(_) => {}
                            }
                        }
                    }
                    let f = if fin { r.0.finish().map(|_| ()) } else { drop(r); Ok(()) };
                    (h, f, rec)
                });
                worker::set_quiet(false);
                let decisions: Vec<u32> = out.decisions.iter().map(|d| d.1).collect();
                record_schedule(stats, &out.decisions, &out.task_order, out.steps, out.switches, out.max_queue, "reader");
                let comp = "bgzf::io::MultithreadedReader";
                let violation = match out.result {
                    Err(_) => {
                        let pi = worker::take_last_panic();
                        Some(viol(
                            comp,
                            "panic",
                            &pi.as_ref().map(|p| p.witness()).unwrap_or_else(|| "unknown".into()),
                            format!("panic on the caller thread: {}", pi.map(|p| format!("{} {}", p.location, p.message)).unwrap_or_default()),
                        ))
                    }
                    Ok((_, _, Some(rec))) => Some(viol(comp, "wrong-bytes", "recovery-after-error", rec)),
                    Ok((h, f, None)) => match (&p.fault, h) {
                        (MtFault::None, Ok(st)) => {
                            c02::record_history_stats(stats, &st);
                            match f {
                                Ok(()) => None,
                                Err(e) => Some(viol(comp, "spurious-error", "finish", format!("finish() failed on a valid file: {e}"))),
                            }
                        }
                        (MtFault::None, Err((c, w, m))) => Some(viol(comp, &c, &w, m)),
                        // with a fault: wrong bytes are never acceptable; an error (from a read or
                        // from finish) must surface if the corrupted region was reached
                        (_, Ok(st)) => {
                            c02::record_history_stats(stats, &st);
                            stats.probe("fault_not_reached_by_history", 1);
                            let _ = corrupted_from;
                            None
                        }
                        (_, Err((c, w, m))) => {
                            if c == "unexpected-error" || c == "wrong-error" {
                                stats.probe("corruption_surfaced_as_error", 1);
                                None
                            } else if c == "premature-eof" || (c == "position-mismatch" && w.starts_with("after-seek")) {
                                // (a seek whose target block is unreadable succeeds with an empty
                                // block: the position then spells the block start, reads give EOF)
                                // the multithreaded reader reports a source/corruption error as EOF to
                                // read calls and only finish() carries it ("from a later call")
                                if f.is_err() {
                                    stats.probe("corruption_surfaced_at_finish", 1);
                                    None
                                } else if *finish {
                                    Some(viol(comp, "dropped-error", "eof-instead-of-error", format!("{m}; finish() returned Ok")))
                                } else {
                                    stats.probe("dropped_without_finish_after_fault", 1);
                                    None
                                }
                            } else {
                                Some(viol(comp, &c, &w, m))
                            }
                        }
                    },
                };
                RunOut { violation, decisions, sink_calls: 0 }
            }
        }
    }
}

fn check_prefix(comp: &str, sink: &[u8], reference: &[u8], fired: bool) -> Option<Violation> {
    if fired && (sink.len() > reference.len() || sink != &reference[..sink.len()]) {
        let at = sink.iter().zip(reference).position(|(a, b)| a != b).unwrap_or(reference.len());
        return Some(viol(
            comp,
            "reordered-output",
            "not-a-prefix",
            format!("after the sink failure the {} accepted bytes are not a prefix of the fault-free output (first difference at {at})", sink.len()),
        ));
    }
    None
}

fn record_schedule(stats: &mut Stats, decisions: &[(u32, u32)], task_order: &[u64], steps: u64, switches: u64, max_queue: usize, what: &str) {
    stats.evaluations += 1;
    stats.steps += steps;
    stats.fault("S_SWITCH", switches);
    let mut h = Fnv::new();
    for d in decisions {
        h.u64(((d.0 as u64) << 32) | d.1 as u64);
    }
    stats.set("distinct_schedules", h.get());
    let mut h2 = Fnv::new();
    for t in task_order {
        h2.u64(*t);
    }
    stats.set("distinct_completion_orders", h2.get());
    let in_order = task_order.windows(2).all(|w| w[0] < w[1]);
    if !in_order {
        stats.fault("S_PERM", 1);
        stats.probe("completion_order_differs_from_submission_order", 1);
    }
    stats.probe(&format!("{what}_runs"), 1);
    let e = stats.probes.entry("max_in_flight_tasks".into()).or_default();
    *e = (*e).max(max_queue as u64);
}

impl Check for C03 {
    fn id(&self) -> &'static str {
        "C03"
    }
    fn level(&self) -> &'static str {
        "exploration"
    }
    fn watchdog_s(&self) -> u64 {
        60
    }
    fn n_cases(&self, tier: Tier) -> u64 {
        match tier {
            Tier::Quick => 20_000,
            Tier::Thorough => 400_000,
        }
    }
    fn plan(&self, master: u64, idx: u64, _tier: Tier) -> Value {
        let mut rng = Rng::new(prng::derive(master, "C03", idx));
        let pool = *rng.pick(&[1usize, 2, 2, 3, 4, 4, 8, 16]);
        let sched = match rng.below(10) {
            0..=2 => Sched::Random,
            3 | 4 => Sched::Pct { depth: 1 + rng.below(3) as u8 },
            5 | 6 => Sched::FillThenLifo,
            7 | 8 => {
                // one permutation of a window of w = min(pool + 1, 4): index patterns over the queue
                let w = (pool + 1).min(4);
                let picks: Vec<u32> = (0..w).map(|_| rng.below(w as u64) as u32).collect();
                Sched::Pattern { picks }
            }
            _ => Sched::BackgroundFirst,
        };
        let writer = rng.bool();
        let (scenario, fault) = if writer {
            let ops = {
                // 1-25 ops, 1-20 blocks: bounded total size
                let mut o = c01::gen_history(&mut rng, 25, 700_000);
                if o.is_empty() {
                    o.push(Op::WriteAll { len: 70_000 });
                }
                o
            };
            let len = c01::total_len(&ops);
            let fault = if rng.chance(1, 3) {
                MtFault::SinkFail {
                    k: rng.below(60),
                    sticky: rng.bool(),
                }
            } else {
                MtFault::None
            };
            (
                Scenario::Writer {
                    level: match rng.below(4) {
                        0 => None,
                        _ => Some(rng.below(10) as u8),
                    },
                    payload: Payload {
                        class: *rng.pick(&CLASSES),
                        len,
                        seed: rng.next_u64(),
                    },
                    ops,
                    finish: rng.chance(3, 4),
                },
                fault,
            )
        } else {
            let layout = if rng.chance(1, 3) {
                let ops = c01::gen_history(&mut rng, 12, 300_000);
                Layout::Writer {
                    level: Some(rng.below(10) as u8),
                    payload: Payload {
                        class: *rng.pick(&CLASSES),
                        len: c01::total_len(&ops),
                        seed: rng.next_u64(),
                    },
                    ops,
                    end: c01::End::Finish,
                }
            } else {
                c02::gen_built_layout(&mut rng, 20)
            };
            let fault = match rng.below(6) {
                0 => MtFault::SourceErr { at: rng.usize_below(1 << 20) },
                1 => MtFault::CorruptBlock {
                    j: rng.usize_below(64),
                    how: rng.below(3) as u8,
                },
                _ => MtFault::None,
            };
            (
                Scenario::Reader {
                    layout,
                    ops: c02::gen_reader_ops(&mut rng, 40, true),
                    finish: rng.chance(3, 4),
                },
                fault,
            )
        };
        serde_json::to_value(Plan {
            kind: if writer { "mt-writer" } else { "mt-reader" }.into(),
            pool,
            sched,
            sched_seed: rng.next_u64(),
            scenario,
            fault,
            replay: None,
            io: if rng.chance(1, 3) { rng.next_u64() | 1 } else { 0 },
        })
        .unwrap()
    }
    fn execute(&self, plan: &Value, ctx: &mut RunCtx) -> Vec<Finding> {
        let p: Plan = serde_json::from_value(plan.clone()).expect("bad C03 plan");
        let out = self.run(&p, ctx.stats);
        ctx.stats.kind(&format!("{} pool={}", p.kind, p.pool));
        ctx.stats.kind(&format!("sched={}", match &p.sched { Sched::Random => "random", Sched::Pct { .. } => "pct", Sched::FillThenLifo => "fill-then-lifo", Sched::Pattern { .. } => "pattern", Sched::BackgroundFirst => "background-first" }));
        if out.decisions.len() > 1 {
            ctx.stats.nontrivial(Fnv::new().u64(plan_hash(&p)).get());
        }
        if ctx.stats.want_sample() && out.decisions.len() > 20 && out.violation.is_none() {
            ctx.stats.sample(|| json!({"plan": p, "decisions": out.decisions.len(), "first_decisions": out.decisions.iter().take(40).collect::<Vec<_>>()}));
        }
        match out.violation {
            Some(v) => {
                // reify the schedule: the narrowed plan carries the explicit decision list
                let mut q = p.clone();
                q.replay = Some(out.decisions);
                vec![Finding {
                    violation: v,
                    plan: serde_json::to_value(q).unwrap(),
                }]
            }
            None => Vec::new(),
        }
    }
    fn shrink(&self, plan: &Value) -> Vec<Value> {
        let Ok(p) = serde_json::from_value::<Plan>(plan.clone()) else {
            return Vec::new();
        };
        let mut out = Vec::new();
        let mut push = |q: Plan| out.push(serde_json::to_value(q).unwrap());
        // schedule: fewer deviations from "keep running the lowest enabled thread" (decision 0)
        if let Some(d) = &p.replay {
            let nz: Vec<usize> = d.iter().enumerate().filter(|&(_, &x)| x != 0).map(|(i, _)| i).collect();
            if !nz.is_empty() {
                let mut q = p.clone();
                q.replay = Some(vec![0; d.len()]);
                push(q);
                let mut chunk = nz.len().div_ceil(2);
                loop {
                    for part in nz.chunks(chunk) {
                        let mut dd = d.clone();
                        for &i in part {
                            dd[i] = 0;
                        }
                        let mut q = p.clone();
                        q.replay = Some(dd);
                        push(q);
                    }
                    if chunk == 1 {
                        break;
                    }
                    chunk = chunk.div_ceil(2);
                    if chunk < nz.len() / 16 {
                        break;
                    }
                }
            }
        }
        // plain sink/source (the decision list no longer fits: seeded strategy)
        if p.io != 0 {
            let mut q = p.clone();
            q.io = 0;
            q.replay = None;
            push(q);
        }
        // workload: with the original (seeded) strategy, since a decision list only fits one workload
        let base = {
            let mut q = p.clone();
            q.replay = None;
            q
        };
        match &p.scenario {
            Scenario::Writer { level, payload, ops, finish } => {
                for i in 0..ops.len() {
                    let mut o = ops.clone();
                    o.remove(i);
                    let mut q = base.clone();
                    q.scenario = Scenario::Writer {
                        level: *level,
                        payload: Payload { len: c01::total_len(&o), ..payload.clone() },
                        ops: o,
                        finish: *finish,
                    };
                    push(q);
                }
            }
            Scenario::Reader { layout, ops, finish } => {
                for o in c02::shrink_ops(ops).into_iter().take(40) {
                    let mut q = base.clone();
                    q.scenario = Scenario::Reader {
                        layout: layout.clone(),
                        ops: o,
                        finish: *finish,
                    };
                    push(q);
                }
            }
        }
        if p.pool > 1 {
            let mut q = base.clone();
            q.pool = p.pool / 2;
            push(q);
        }
        out
    }
    fn rule(&self) -> String {
        "one evaluation = one scenario under one seeded schedule: the real MultithreadedWriter (a C01 write/flush history, finish or drop; optional failing sink call) or MultithreadedReader (a C02 layout + history of reads, read_exact, fill_buf/consume, seeks by virtual and uncompressed position, finish or drop; optional source I/O error or one corrupt block: CRC / deflate / ISIZE) on real OS threads under the baton scheduler, pool size in {1,2,3,4,8,16}; strategies: uniform random, PCT (1-3 priority change points), caller-first + LIFO pick-up (maximal reordering inside the in-flight window), caller-first + cyclic pick patterns (forced completion permutations), background-first. Oracles: writer bytes byte-identical to bgzf::io::Writer for the same history and level, finish returns Ok; reader bytes/virtual positions equal to the flat model (C02 oracle) after every operation; no deadlock / livelock (exact: no enabled thread, step bound), every simulated thread finished after finish/drop; with a fault: error surfaces from a later call (finish at the latest), accepted sink bytes are a prefix of the fault-free output, no byte beyond a corrupt block is delivered. distinct_nontrivial = distinct plans whose run had more than one scheduling decision; distinct_schedules / distinct_completion_orders = distinct decision lists / task completion orders".into()
    }
    fn assumptions(&self) -> Vec<String> {
        vec![
            "stub fidelity: the crossbeam-channel shim implements bounded capacity >= 1, blocking send/recv, recv drains then errors after the last sender is gone, send errors once the last receiver is gone, eager discard on last-receiver drop; zero-capacity channels are not modelled (noodles uses none)".into(),
            "the rayon shim lets any queued task be picked by any idle worker (a superset of work stealing); tasks run atomically, so completion order = pick-up order".into(),
            "after the first Err the harness issues no further operation (a failed writer need not stay usable); a bare get_mut() without a seek is not issued".into(),
        ]
    }
    fn components(&self) -> Value {
        json!({"real": ["noodles-bgzf multithreaded_writer.rs, multithreaded_reader.rs, deflate, frame parsing; std::thread (real OS threads, real JoinHandle)"], "stub": ["crossbeam-channel (shim, same semantics)", "rayon::spawn/current_num_threads (shim pool of N simulated workers)", "byte sink/source (SimWrite/SimRead, every call a scheduling point)"]})
    }
    fn expected_probes(&self) -> Vec<&'static str> {
        vec![
            "completion_order_differs_from_submission_order",
            "sink_failure_surfaced",
            "writer_runs",
            "reader_runs",
            "seek_to_end_of_stream_from_nonempty_block",
            "corruption_surfaced_as_error",
        ]
    }
}
