//! SPIKE: `rayon::spawn` / `current_num_threads` on the simulated pool.
pub fn current_num_threads() -> usize {
    crossbeam_channel::sim::pool_size().unwrap_or(4)
}
pub fn spawn<F: FnOnce() + Send + 'static>(f: F) {
    if let Err(f) = crossbeam_channel::sim::pool_spawn(Box::new(f)) {
        std::thread::spawn(f);
    }
}
