//! /verif/known_findings.json — committed, read-only at run time.
//!
//! {"findings":[ {"status":"known","property":"C14","signature":"C14|bai::fs::write|hidden-failure|ENOSPC","what":"..."},
//!               {"status":"fixed","property":"C02","commit":"<sha>","what":"..."} ]}
//!
//! Only `status == "known"` entries suppress anything, and only violations whose signature
//! matches (exact, or with `*` wildcards in the listed signature).

use std::path::Path;

use serde::Deserialize;

#[derive(Deserialize, Debug, Clone)]
pub struct Entry {
    pub status: String,
    pub property: String,
    #[serde(default)]
    pub signature: String,
    #[serde(default)]
    pub what: String,
    #[serde(default)]
    pub commit: String,
}

#[derive(Deserialize, Debug, Default)]
pub struct KnownFindings {
    #[serde(default)]
    pub findings: Vec<Entry>,
}

impl KnownFindings {
    pub fn load(path: &Path) -> Result<Self, String> {
        if !path.exists() {
            return Ok(Self::default());
        }
        let s = std::fs::read_to_string(path).map_err(|e| format!("{}: {e}", path.display()))?;
        serde_json::from_str(&s).map_err(|e| format!("{}: {e}", path.display()))
    }

    pub fn lookup(&self, property: &str, signature: &str) -> Option<&Entry> {
        self.findings.iter().find(|e| {
            e.status == "known" && e.property == property && glob_match(&e.signature, signature)
        })
    }
}

/// `*` matches any run of characters (including none); everything else is literal.
pub fn glob_match(pat: &str, s: &str) -> bool {
    let parts: Vec<&str> = pat.split('*').collect();
    if parts.len() == 1 {
        return pat == s;
    }
    let mut rest = s;
    for (i, p) in parts.iter().enumerate() {
        if i == 0 {
            if !rest.starts_with(p) {
                return false;
            }
            rest = &rest[p.len()..];
        } else if i == parts.len() - 1 {
            return rest.ends_with(p);
        } else {
            match rest.find(p) {
                Some(k) => rest = &rest[k + p.len()..],
                None => return false,
            }
        }
    }
    true
}

#[cfg(test)]
mod tests {
    use super::glob_match;
    #[test]
    fn globs() {
        assert!(glob_match("a|b|c", "a|b|c"));
        assert!(!glob_match("a|b|c", "a|b|cd"));
        assert!(glob_match("a|*|c", "a|xyz|c"));
        assert!(glob_match("a|*", "a|xyz|c"));
        assert!(!glob_match("a|*|d", "a|xyz|c"));
    }
}
