//! C15 — corrupt or hostile input is reported as an error, never a panic.
//! One case = one generated valid file of one kind on the simulated disk; every sub-case applies
//! one stored-data fault (byte substitution, 4-byte field overwrite, truncation) at one layer
//! (raw file bytes, or the uncompressed payload re-wrapped in valid BGZF so that the corruption
//! passes the CRC and reaches the decoder) and lets a reader process read everything, touch every
//! accessor (via the text renderers / owned conversions) and, for index kinds, run region and
//! unmapped queries against the intact data file.

use std::sync::Arc;

use serde::{Deserialize, Serialize};
use serde_json::{Value, json};

use crate::{
    fmt::{
        End, Source, observe,
        kinds::{self, FileSpec, Made},
        query,
    },
    kernel::{Check, Finding, Fnv, Rng, RunCtx, Tier, Violation, alloc, prng},
    model::bgzf as mbgzf,
};

pub struct C15;

#[derive(Clone, Copy, Debug, Serialize, Deserialize, PartialEq, Eq)]
pub enum Layer {
    /// the file bytes as stored (container fields, BSIZE/ISIZE/CRC, compressed data)
    Raw,
    /// the uncompressed BGZF payload; the affected member is rebuilt with a valid CRC/ISIZE
    Payload,
}

#[derive(Clone, Debug, Serialize, Deserialize, PartialEq)]
pub enum Mut {
    Flip { off: usize, val: u8 },
    Field { off: usize, val: u32 },
    Trunc { len: usize },
    /// one byte removed (text formats: merges fields / lines)
    Delete { off: usize },
    /// one byte inserted before `off`
    Insert { off: usize, val: u8 },
    /// two bytes replaced by a valid two-byte UTF-8 character
    Utf8 { off: usize },
    /// text formats: the run of ASCII digits starting at `off` replaced by TEXT_NUMBERS[which]
    TextNum { off: usize, which: u8 },
}

const TEXT_NUMBERS: [&str; 7] = ["0", "-1", "2147483647", "2147483648", "4294967295", "9223372036854775807", "18446744073709551615"];

#[derive(Clone, Debug, Serialize, Deserialize, PartialEq)]
pub enum Muts {
    Enumerate { seed: u64 },
    List(Vec<Mut>),
}

#[derive(Clone, Debug, Serialize, Deserialize)]
pub struct Plan {
    pub kind: String,
    pub file: FileSpec,
    pub layer: Layer,
    pub muts: Muts,
}

const FIELD_VALUES: [u32; 5] = [0, 1, 0x7fff_ffff, 0x8000_0000, 0xffff_ffff];

fn offsets(len: usize, boundaries: &[usize], rng: &mut Rng, quick: bool) -> (Vec<usize>, bool) {
    let all_bound = if quick { 1200 } else { 2048 };
    if len <= all_bound {
        return ((0..len).collect(), true);
    }
    let mut set = std::collections::BTreeSet::new();
    for o in 0..len.min(400) {
        set.insert(o);
    }
    for &b in boundaries.iter().take(30) {
        for d in 0..32usize {
            if b + d < len {
                set.insert(b + d);
            }
            if b >= d {
                set.insert(b - d);
            }
        }
    }
    for o in len.saturating_sub(64)..len {
        set.insert(o);
    }
    for _ in 0..(if quick { 300 } else { 1500 }) {
        set.insert(rng.usize_below(len));
    }
    (set.into_iter().filter(|&o| o < len).collect(), false)
}

fn enumerate(base: &[u8], boundaries: &[usize], seed: u64, quick: bool) -> (Vec<Mut>, bool) {
    let mut rng = Rng::new(seed);
    let len = base.len();
    let (offs, all) = offsets(len, boundaries, &mut rng, quick);
    let mut v = Vec::with_capacity(offs.len() * 11);
    for &o in &offs {
        let b = base[o];
        let mut vals = vec![0x00u8, 0xff, b ^ 1, b ^ 0x80, b.wrapping_add(1), rng.below(256) as u8];
        vals.sort();
        vals.dedup();
        for val in vals {
            if val != b {
                v.push(Mut::Flip { off: o, val });
            }
        }
    }
    // 4-byte fields: every offset for small inputs, every offset of the chosen set otherwise
    for &o in &offs {
        if o + 4 <= len {
            for val in FIELD_VALUES {
                if base[o..o + 4] != val.to_le_bytes() {
                    v.push(Mut::Field { off: o, val });
                }
            }
        }
    }
    for _ in 0..8 {
        v.push(Mut::Trunc { len: rng.usize_below(len + 1) });
    }
    // text formats (decided from the content: >= 95 % of the bytes are tab/LF/CR/printable ASCII):
    // structural substitutions, deletions, insertions and a valid multibyte character
    if is_text(base) {
        for &o in &offs {
            let b = base[o];
            for val in [b'\t', b'\n', b'\r', b' ', b';', b'=', b':', b',', b'.', b'0', b'-', b'@', b'>', b'#', b'"'] {
                if val != b {
                    v.push(Mut::Flip { off: o, val });
                }
            }
            v.push(Mut::Delete { off: o });
            for val in [b'\t', b'\n', b'\r'] {
                v.push(Mut::Insert { off: o, val });
            }
            if o + 2 <= len {
                v.push(Mut::Utf8 { off: o });
            }
            if b.is_ascii_digit() && (o == 0 || !base[o - 1].is_ascii_digit()) {
                for which in 0..TEXT_NUMBERS.len() as u8 {
                    v.push(Mut::TextNum { off: o, which });
                }
            }
        }
    }
    (v, all)
}

fn is_text(b: &[u8]) -> bool {
    !b.is_empty() && b.iter().filter(|&&c| c == b'\t' || c == b'\n' || c == b'\r' || (0x20..0x7f).contains(&c)).count() * 100 >= b.len() * 95
}

/// Length-preserving or not, applied to a plain byte string.
fn apply_bytes(v: &mut Vec<u8>, m: &Mut) {
    match m {
        Mut::Flip { off, val } => {
            if *off < v.len() {
                v[*off] = *val;
            }
        }
        Mut::Field { off, val } => {
            if *off + 4 <= v.len() {
                v[*off..*off + 4].copy_from_slice(&val.to_le_bytes());
            }
        }
        Mut::Trunc { len } => v.truncate(*len),
        Mut::Delete { off } => {
            if *off < v.len() {
                v.remove(*off);
            }
        }
        Mut::Insert { off, val } => {
            if *off <= v.len() {
                v.insert(*off, *val);
            }
        }
        Mut::Utf8 { off } => {
            if *off + 2 <= v.len() {
                v[*off] = 0xc3;
                v[*off + 1] = 0xa9;
            }
        }
        Mut::TextNum { off, which } => {
            if *off < v.len() {
                let end = (*off..v.len()).find(|&i| !v[i].is_ascii_digit()).unwrap_or(v.len());
                v.splice(*off..end, TEXT_NUMBERS[*which as usize % TEXT_NUMBERS.len()].bytes());
            }
        }
    }
}

/// The uncompressed stream of a BGZF container with member-wise rebuild.
struct PayloadLayer {
    flat: mbgzf::Flat,
    members: Vec<Vec<u8>>,
}

impl PayloadLayer {
    fn new(file: &[u8], flat: &mbgzf::Flat) -> Self {
        let members = flat
            .members
            .iter()
            .map(|m| file[m.cpos as usize..(m.cpos + m.csize) as usize].to_vec())
            .collect();
        Self {
            flat: flat.clone(),
            members,
        }
    }
    fn apply(&self, m: &Mut) -> Vec<u8> {
        let mut data = self.flat.data.clone();
        let (lo, hi) = match m {
            Mut::Flip { off, val } => {
                data[*off] = *val;
                (*off, *off + 1)
            }
            Mut::Field { off, val } => {
                data[*off..*off + 4].copy_from_slice(&val.to_le_bytes());
                (*off, *off + 4)
            }
            Mut::Delete { .. } | Mut::Insert { .. } | Mut::TextNum { .. } => {
                // length-changing: the whole stream is re-framed in members of <= 60 000 bytes
                apply_bytes(&mut data, m);
                let mut out = Vec::new();
                for chunk in data.chunks(60_000) {
                    out.extend_from_slice(&mbgzf::rebuild_member(chunk));
                }
                out.extend_from_slice(&mbgzf::EOF_MARKER);
                return out;
            }
            Mut::Utf8 { off } => {
                apply_bytes(&mut data, m);
                (*off, *off + 2)
            }
            Mut::Trunc { len } => {
                // truncate the uncompressed stream: keep whole members before, rebuild the last
                let mut out = Vec::new();
                for (i, mem) in self.flat.members.iter().enumerate() {
                    let s = mem.ustart as usize;
                    let e = s + mem.ulen as usize;
                    if e <= *len {
                        out.extend_from_slice(&self.members[i]);
                    } else if s < *len {
                        out.extend_from_slice(&mbgzf::rebuild_member(&data[s..*len]));
                        break;
                    } else {
                        break;
                    }
                }
                out.extend_from_slice(&mbgzf::EOF_MARKER);
                return out;
            }
        };
        let mut out = Vec::with_capacity(self.flat.file_len as usize + 64);
        for (i, mem) in self.flat.members.iter().enumerate() {
            let s = mem.ustart as usize;
            let e = s + mem.ulen as usize;
            if mem.ulen > 0 && s < hi && lo < e {
                out.extend_from_slice(&mbgzf::rebuild_member(&data[s..e]));
            } else {
                out.extend_from_slice(&self.members[i]);
            }
        }
        out
    }
}

fn apply_raw(base: &[u8], m: &Mut) -> Vec<u8> {
    let mut v = base.to_vec();
    apply_bytes(&mut v, m);
    v
}

/// Signature parts of a contained panic: (component, class, witness). The component is the source
/// file of the panic site (not the reader kind: the same site is reached through several kinds),
/// the witness the panic message with numbers normalised — stable when unrelated edits shift lines.
fn panic_signature(reader: &str, witness: &str, msg: &str) -> (String, &'static str, String) {
    let file = witness.rsplit_once(':').map(|x| x.0).unwrap_or(witness).to_string();
    if msg.contains(alloc::REFUSED_MARKER) {
        return (file, "abort", "allocation-refused-by-memory-policy".to_string());
    }
    // msg = "<location>: <message>"
    let text = msg.splitn(2, ": ").nth(1).unwrap_or(msg);
    let mut norm = String::new();
    let mut in_num = false;
    for ch in text.chars() {
        if ch.is_ascii_digit() {
            if !in_num {
                norm.push('N');
            }
            in_num = true;
        } else {
            in_num = false;
            norm.push(if ch == '|' || ch == '\n' { ' ' } else { ch });
        }
        if norm.len() >= 72 {
            break;
        }
    }
    let component = if file.starts_with("/rustc/") || file.starts_with('<') { format!("{reader} (panic inside std)") } else { file };
    (component, "panic", norm.trim().to_string())
}

fn mut_class(m: &Mut) -> &'static str {
    match m {
        Mut::Flip { .. } => "D_FLIP",
        Mut::Field { .. } => "D_FIELD",
        Mut::Trunc { .. } => "R_CUT",
        Mut::Delete { .. } => "D_DELETE",
        Mut::Insert { .. } => "D_INSERT",
        Mut::Utf8 { .. } => "D_UTF8",
        Mut::TextNum { .. } => "D_TEXTNUM",
    }
}

impl Check for C15 {
    fn id(&self) -> &'static str {
        "C15"
    }
    fn level(&self) -> &'static str {
        "fault_enumeration"
    }
    fn announce(&self) -> bool {
        true
    }
    fn watchdog_s(&self) -> u64 {
        20
    }
    fn arm_allocator(&self) -> bool {
        true
    }
    fn n_cases(&self, tier: Tier) -> u64 {
        let k = kinds::C15_KINDS.len() as u64;
        match tier {
            Tier::Quick => 12 * k,
            Tier::Thorough => 60 * k,
        }
    }
    fn plan(&self, master: u64, idx: u64, tier: Tier) -> Value {
        let mut rng = Rng::new(prng::derive(master, "C15", idx));
        let k = kinds::C15_KINDS.len() as u64;
        let kind = kinds::C15_KINDS[(idx % k) as usize];
        let round = idx / k;
        let size_class = match round % 6 {
            0 | 1 => 0,
            2 | 3 => 1,
            4 => 2,
            _ => {
                if tier == Tier::Quick { 1 } else { 3 }
            }
        };
        // "Payload" for CRAM = raw bytes with every affected block / container-header CRC re-sealed
        let layer = if (kind.is_bgzf_container() || kind == kinds::Kind::Cram) && round % 2 == 1 { Layer::Payload } else { Layer::Raw };
        serde_json::to_value(Plan {
            kind: kind.name().into(),
            file: FileSpec {
                kind,
                size_class,
                seed: rng.next_u64(),
            },
            layer,
            muts: Muts::Enumerate { seed: rng.next_u64() },
        })
        .unwrap()
    }
    fn execute(&self, plan: &Value, ctx: &mut RunCtx) -> Vec<Finding> {
        let p: Plan = serde_json::from_value(plan.clone()).expect("bad C15 plan");
        let made: Made = match kinds::make(&p.file) {
            Ok(m) => m,
            Err(_) => {
                ctx.stats.probe("workload_unbuildable", 1);
                return Vec::new();
            }
        };
        let kind = p.file.kind;
        let quick = true;
        let payload = match (p.layer, &made.flat) {
            (Layer::Payload, Some(f)) => Some(PayloadLayer::new(&made.bytes, f)),
            _ => None,
        };
        let base: &[u8] = match &payload {
            Some(pl) => &pl.flat.data,
            None => &made.bytes,
        };
        // boundaries in the layer's byte space
        let bounds: Vec<usize> = match &payload {
            Some(pl) => pl.flat.members.iter().map(|m| m.ustart as usize).collect(),
            None => made.boundaries.clone(),
        };
        let (mut muts, all) = match &p.muts {
            Muts::Enumerate { seed } => enumerate(base, &bounds, *seed, quick),
            Muts::List(v) => (v.clone(), false),
        };
        // CRAM files whose every decode costs 0.1 s and more (bzip2 / lzma / fqzcomp block codecs: the
        // fqzcomp decoder builds 65 536 models per block) get every 16th mutation of the enumeration: a
        // single such case otherwise runs for hours. Decided from the plan, never from a clock.
        let slow_cram = matches!(&made.model, kinds::Model::Cram { opts, .. } if matches!(opts.encoder, 3 | 4 | 9));
        let all = all && !slow_cram;
        if slow_cram && matches!(p.muts, Muts::Enumerate { .. }) {
            muts = muts.into_iter().step_by(16).collect();
            ctx.stats.probe("slow_cram_case_thinned", 1);
        }
        // CRAM: every block's compression-method byte set to every method, so that block payloads
        // (arbitrary bytes from the codec's point of view) are fed to each codec decoder:
        // raw, gzip, bzip2, lzma, rANS 4x8, rANS Nx16, arithmetic coder, fqzcomp, name tokenizer
        if kind == kinds::Kind::Cram && p.layer == Layer::Payload && matches!(p.muts, Muts::Enumerate { .. }) {
            if let Ok(blocks) = crate::fmt::cram::block_locations(&made.bytes) {
                for b in blocks {
                    for method in 0u8..=9 {
                        if made.bytes[b.block_start] != method {
                            muts.push(Mut::Flip { off: b.block_start, val: method });
                        }
                    }
                }
                ctx.stats.probe("cram_block_method_substitutions", 1);
            }
        }
        let file_hash = prng::hash_bytes(&made.bytes);
        let mut findings = Vec::new();
        let mut seen: std::collections::BTreeSet<String> = Default::default();
        let n_variants = kind.variants();
        ctx.stats.kind(kind.name());
        for (i, m) in muts.iter().enumerate() {
            let narrowed = || {
                serde_json::to_value(Plan {
                    kind: p.kind.clone(),
                    file: p.file.clone(),
                    layer: p.layer,
                    muts: Muts::List(vec![m.clone()]),
                })
                .unwrap()
            };
            if !ctx.begin_sub(narrowed) {
                continue;
            }
            let mut bytes = match &payload {
                Some(pl) => pl.apply(m),
                None => apply_raw(&made.bytes, m),
            };
            if kind == kinds::Kind::Cram && p.layer == Layer::Payload {
                // re-seal the CRC32 of the block / container header the mutation landed in, so
                // that the corruption reaches the decoders (located by the harness' own walker on
                // the *original* file: the structure offsets are those of the valid file)
                let offs: Vec<usize> = match m {
                    Mut::Flip { off, .. } => vec![*off],
                    Mut::Field { off, .. } => vec![*off, *off + 3],
                    Mut::Trunc { .. } | Mut::Delete { .. } | Mut::Insert { .. } | Mut::TextNum { .. } => vec![],
                    Mut::Utf8 { off } => vec![*off, *off + 1],
                };
                for o in offs {
                    if o < bytes.len() {
                        match crate::fmt::cram::reseal_with_layout(&mut bytes, &made.bytes, o) {
                            Ok(true) => ctx.stats.probe("cram_checksum_resealed", 1),
                            _ => {}
                        }
                    }
                }
            }
            let bytes = Arc::new(bytes);
            // a single listed mutation (replay) exercises every variant; enumeration rotates
            let variants: Vec<u8> = if muts.len() == 1 { (0..n_variants).collect() } else { vec![(i % n_variants as usize) as u8] };
            for variant in variants {
                let obs = kinds::read(kind, variant, Source::plain(bytes.clone()));
                let s = &mut *ctx.stats;
                s.evaluations += 1;
                s.steps += obs.items.len() as u64 + 1;
                s.fault(mut_class(m), 1);
                match &obs.end {
                    End::Eof => s.probe("corrupt_input_read_without_error", 1),
                    End::Err { .. } => s.probe("corrupt_input_reported_as_error", 1),
                    End::Panic { witness, msg } => {
                        let refused = msg.contains(alloc::REFUSED_MARKER);
                        if refused {
                            s.fault("ALLOC_REFUSED", 1);
                        }
                        let reader = format!("{}:{}", kind.name(), kinds::variant_name(kind, variant));
                        let (component, class, wit) = panic_signature(&reader, witness, msg);
                        let v = Violation::new(
                            &component,
                            class,
                            &wit,
                            if refused {
                                format!("{reader}, {:?} layer, {m:?}: allocation refused by the memory policy (single request > 1 GiB, or live heap > 2 GiB) at {msg} (in the shipped library: abort / memory exhaustion)", p.layer)
                            } else {
                                format!("{reader}, {:?} layer, {m:?}: panic at {msg}", p.layer)
                            },
                        );
                        if seen.insert(v.signature("C15")) {
                            findings.push(Finding {
                                violation: v,
                                plan: narrowed(),
                            });
                        }
                    }
                }
            }
            // index kinds: if the corrupted index still loads, query the intact data file with it
            if let Some((dk, data)) = &made.companion {
                // (a query protocol over a large data file costs tens of ms: every 8th mutation then;
                // decided from the plan, never from a clock)
                if (p.layer == Layer::Raw || kind.is_bgzf_container()) && (data.len() <= 100_000 || i % 8 == 0 || muts.len() == 1) {
                    let obs = observe(|o| query::query(kind, &bytes, *dk, data.clone(), &mut o.items));
                    let s = &mut *ctx.stats;
                    s.evaluations += 1;
                    s.steps += obs.items.len() as u64 + 1;
                    if !obs.items.is_empty() {
                        s.probe("corrupt_index_loaded_and_queried", 1);
                    }
                    if let End::Panic { witness, msg } = &obs.end {
                        let reader = format!("{}:query({})", kind.name(), dk.name());
                        let (component, class, wit) = panic_signature(&reader, witness, msg);
                        let v = Violation::new(
                            &component,
                            class,
                            &wit,
                            format!("{reader}, {:?} layer, {m:?}: query with the corrupted index panicked at {msg}", p.layer),
                        );
                        if seen.insert(v.signature("C15")) {
                            findings.push(Finding {
                                violation: v,
                                plan: narrowed(),
                            });
                        }
                    }
                }
            }
            ctx.stats.nontrivial(Fnv::new().u64(file_hash).u64(p.layer as u64).str(&format!("{m:?}")).get());
        }
        let (huge, refused, largest) = alloc::take_counters();
        ctx.stats.probe("huge_alloc", huge);
        ctx.stats.probe("alloc_refused_by_policy", refused);
        if largest > 0 {
            ctx.stats.probe("largest_single_allocation_mib", 0);
            let e = ctx.stats.probes.entry("largest_single_allocation_mib".into()).or_default();
            *e = (*e).max((largest >> 20) as u64);
        }
        if all && matches!(p.muts, Muts::Enumerate { .. }) {
            ctx.stats.exhaustive.insert(format!(
                "every byte offset x value set and every 4-byte field offset x 5 values: {} file {:016x}, {:?} layer ({} bytes)",
                kind.name(),
                file_hash,
                p.layer,
                base.len()
            ));
            ctx.stats.probe("files_mutated_at_every_offset", 1);
        }
        if ctx.stats.want_sample() && muts.len() > 10 {
            ctx.stats.sample(|| json!({"file": p.file, "layer": p.layer, "layer_len": base.len(), "mutations": muts.len(), "example": muts[muts.len() / 2]}));
        }
        findings
    }
    fn rule(&self) -> String {
        "one evaluation = one (valid generated file, layer, single stored-data fault, reading-protocol variant or index query): D_FLIP at every byte offset (files/payloads <= 1200 bytes; else the first 400 bytes, +-32 around structural boundaries, the last 64 and 300 seeded offsets) x {0x00, 0xff, b^1, b^0x80, b+1, seeded}; D_FIELD 4-byte LE overwrite at the same offsets x {0, 1, 0x7fffffff, 0x80000000, 0xffffffff}; 8 seeded truncations. Layers: raw bytes (container fields incl. BSIZE/ISIZE/CRC) and, for BGZF containers, the uncompressed payload with the affected member rebuilt (valid CRC/ISIZE). The reader reads to EOF/error and renders every Ok record through the text writers (touching every accessor); corrupted indexes that load are used for region/unmapped queries on the intact data file. Oracle: Ok or Err only — no panic (catch_unwind), no abort/stack overflow (worker death attributed through announced sub-cases), no hang (watchdog). Allocation policy (fixed, machine-independent): a single request > 1 GiB, or any request while the live heap exceeds 2 GiB, is refused (abort / memory exhaustion in the shipped library; observed as a contained panic attributed to the requesting site); 96 MiB..1 GiB granted and counted (huge_alloc). distinct_nontrivial = distinct (file hash, layer, mutation)".into()
    }
    fn assumptions(&self) -> Vec<String> {
        vec![
            "policy: a single allocation request above 1 GiB (inputs are < 1 MiB) is treated as failing (abort); below that it is granted".into(),
            "accessor coverage = what the SAM/VCF text renderers, owned-record conversions and Debug renderings touch".into(),
        ]
    }
    fn components(&self) -> Value {
        json!({"real": ["all noodles readers, lazy record views, owned conversions, index readers, query paths"], "stub": ["disk with one stored-data fault; counting global allocator (policy only; memory comes from the system allocator)"]})
    }
    fn expected_probes(&self) -> Vec<&'static str> {
        vec![
            "corrupt_input_read_without_error",
            "corrupt_input_reported_as_error",
            "corrupt_index_loaded_and_queried",
            "files_mutated_at_every_offset",
        ]
    }
}
