//! Simulator kernel: PRNG, plans, per-run statistics, findings, the `Check` interface, worker
//! protocol, orchestrator, replay, minimiser, evidence writer.

pub mod alloc;
pub mod evidence;
pub mod known;
pub mod orchestrator;
pub mod prng;
pub mod worker;

use std::collections::{BTreeMap, BTreeSet};

use serde::{Deserialize, Serialize};
use serde_json::Value;

pub use prng::{Fnv, Rng};

#[derive(Clone, Copy, PartialEq, Eq, Debug)]
pub enum Tier {
    Quick,
    Thorough,
}

impl Tier {
    pub fn parse(s: &str) -> Option<Tier> {
        match s {
            "quick" => Some(Tier::Quick),
            "thorough" => Some(Tier::Thorough),
            _ => None,
        }
    }
    pub fn name(self) -> &'static str {
        match self {
            Tier::Quick => "quick",
            Tier::Thorough => "thorough",
        }
    }
}

/// A violation of a property, as judged by an oracle.
#[derive(Clone, Debug, Serialize, Deserialize, PartialEq, Eq)]
pub struct Violation {
    /// call site: reader/writer kind and API
    pub component: String,
    /// violation class ("altered-record", "hidden-failure", "panic", "abort", "hang", ...)
    pub class: String,
    /// discriminating witness class (stable across seeds; e.g. panic location)
    pub witness: String,
    /// free text for the human
    pub message: String,
}

impl Violation {
    pub fn new(component: &str, class: &str, witness: &str, message: String) -> Self {
        Self {
            component: component.into(),
            class: class.into(),
            witness: witness.into(),
            message,
        }
    }

    pub fn signature(&self, property: &str) -> String {
        format!(
            "{property}|{}|{}|{}",
            self.component, self.class, self.witness
        )
    }
}

/// A violation plus the narrowed plan that reproduces it when executed on its own.
#[derive(Clone, Debug, Serialize, Deserialize)]
pub struct Finding {
    pub violation: Violation,
    pub plan: Value,
}

const MAX_DISTINCT: usize = 4_000_000;
const MAX_SAMPLES: usize = 4;

/// Per-worker statistics; merged by the orchestrator.
#[derive(Default, Debug, Serialize, Deserialize)]
pub struct Stats {
    /// executions (sub-cases) run
    pub evaluations: u64,
    /// simulated time: scheduler steps / I/O calls / polls
    pub steps: u64,
    /// faults that actually fired, per catalogue id
    pub faults: BTreeMap<String, u64>,
    /// rare-branch probes
    pub probes: BTreeMap<String, u64>,
    /// hashes of distinct non-trivial cases
    pub nontrivial: BTreeSet<u64>,
    pub nontrivial_overflow: bool,
    /// further distinct-sets by name (distinct_schedules, distinct_completion_orders, ...)
    pub sets: BTreeMap<String, BTreeSet<u64>>,
    /// a few actual cases written out
    pub samples: Vec<Value>,
    /// names of sub-spaces enumerated completely
    pub exhaustive: BTreeSet<String>,
    /// evaluations per kind (component)
    pub per_kind: BTreeMap<String, u64>,
}

impl Stats {
    pub fn fault(&mut self, id: &str, n: u64) {
        if n > 0 {
            *self.faults.entry(id.to_string()).or_default() += n;
        }
    }
    pub fn probe(&mut self, id: &str, n: u64) {
        *self.probes.entry(id.to_string()).or_default() += n;
    }
    pub fn probe_if(&mut self, id: &str, cond: bool) {
        *self.probes.entry(id.to_string()).or_default() += cond as u64;
    }
    pub fn kind(&mut self, k: &str) {
        *self.per_kind.entry(k.to_string()).or_default() += 1;
    }
    pub fn nontrivial(&mut self, h: u64) {
        if self.nontrivial.len() < MAX_DISTINCT {
            self.nontrivial.insert(h);
        } else if !self.nontrivial.contains(&h) {
            self.nontrivial_overflow = true;
        }
    }
    pub fn set(&mut self, name: &str, h: u64) {
        let s = self.sets.entry(name.to_string()).or_default();
        if s.len() < MAX_DISTINCT {
            s.insert(h);
        }
    }
    pub fn sample(&mut self, v: impl FnOnce() -> Value) {
        if self.samples.len() < MAX_SAMPLES {
            self.samples.push(v());
        }
    }
    pub fn want_sample(&self) -> bool {
        self.samples.len() < MAX_SAMPLES
    }
    pub fn merge(&mut self, o: Stats) {
        self.evaluations += o.evaluations;
        self.steps += o.steps;
        for (k, v) in o.faults {
            *self.faults.entry(k).or_default() += v;
        }
        for (k, v) in o.probes {
            *self.probes.entry(k).or_default() += v;
        }
        for (k, v) in o.per_kind {
            *self.per_kind.entry(k).or_default() += v;
        }
        for h in o.nontrivial {
            self.nontrivial(h);
        }
        self.nontrivial_overflow |= o.nontrivial_overflow;
        for (k, s) in o.sets {
            let d = self.sets.entry(k).or_default();
            for h in s {
                if d.len() < MAX_DISTINCT {
                    d.insert(h);
                }
            }
        }
        for s in o.samples {
            if self.samples.len() < 2 * MAX_SAMPLES {
                self.samples.push(s);
            }
        }
        self.exhaustive.extend(o.exhaustive);
    }
}

/// Context handed to a check while it executes one plan.
pub struct RunCtx<'a> {
    pub stats: &'a mut Stats,
    /// when set, every sub-case is announced (unbuffered) before it runs, so that an abort, stack
    /// overflow or hang of the worker process can be attributed to it
    pub announce: bool,
    /// sub-cases with an ordinal below this are skipped (resume after a worker death)
    pub skip_subs: u64,
    pub sub_counter: u64,
}

impl<'a> RunCtx<'a> {
    pub fn new(stats: &'a mut Stats) -> Self {
        Self {
            stats,
            announce: false,
            skip_subs: 0,
            sub_counter: 0,
        }
    }

    /// Call before each sub-case of an enumerating plan with its narrowed plan; returns false if
    /// the sub-case must be skipped (it was already executed before a worker restart).
    pub fn begin_sub(&mut self, plan: impl FnOnce() -> Value) -> bool {
        let k = self.sub_counter;
        self.sub_counter += 1;
        if k < self.skip_subs {
            return false;
        }
        if self.announce {
            worker::raw_line(&format!("s {}", plan()));
        }
        true
    }
}

/// One check = one property's simulation: plan generation, execution, shrinking.
pub trait Check: Sync {
    fn id(&self) -> &'static str;
    /// "exploration" | "fault_enumeration"
    fn level(&self) -> &'static str;
    fn n_cases(&self, tier: Tier) -> u64;
    /// Phase 1: pure function (master seed, index) -> plan (plain data).
    fn plan(&self, master: u64, idx: u64, tier: Tier) -> Value;
    /// Phase 2: pure function plan -> findings (+ statistics).
    fn execute(&self, plan: &Value, ctx: &mut RunCtx) -> Vec<Finding>;
    /// Candidate simplifications of a (narrowed) plan, most aggressive first.
    fn shrink(&self, _plan: &Value) -> Vec<Value> {
        Vec::new()
    }
    /// Should sub-cases be announced (needed where aborts are a violation class)?
    fn announce(&self) -> bool {
        false
    }
    /// Arm the counting allocator's size policy (C15)?
    fn arm_allocator(&self) -> bool {
        false
    }
    /// Per-case wall-clock watchdog in seconds (only real-time input; cannot alter a terminating run).
    fn watchdog_s(&self) -> u64 {
        120
    }
    fn rule(&self) -> String;
    fn assumptions(&self) -> Vec<String>;
    /// real vs stub components
    fn components(&self) -> Value;
    /// probes expected to be non-zero in a healthy run (warn if stuck at 0)
    fn expected_probes(&self) -> Vec<&'static str> {
        Vec::new()
    }
}

/// Runs `f`, converting a panic into `Err(location + message)`. The panic hook installed by
/// `worker::install_panic_hook` records the location in a thread-local.
pub fn catch<R>(f: impl FnOnce() -> R) -> Result<R, PanicInfo> {
    worker::catch(f)
}

#[derive(Clone, Debug)]
pub struct PanicInfo {
    pub location: String,
    pub message: String,
}

impl PanicInfo {
    /// Location with the /repo prefix removed, line kept: stable witness for signatures.
    pub fn witness(&self) -> String {
        // repository-relative path: everything from the crate directory ("noodles-*/") on, so that a
        // scratch worktree of the repository gives the same witness as /repo
        let l = match self.location.find("/noodles-") {
            Some(i) if !self.location.starts_with("/rustc/") => &self.location[i + 1..],
            _ => self.location.strip_prefix("/repo/").unwrap_or(&self.location),
        };
        // drop the column
        let mut parts: Vec<&str> = l.rsplitn(2, ':').collect();
        parts.reverse();
        parts[0].to_string()
    }
}

/// Runs `f` on a fresh OS thread and returns its result (panics are propagated). A fresh thread
/// starts with pristine thread-locals, in particular std's per-thread RandomState key counter, so
/// hash-map iteration order inside `f` does not depend on what ran before on the calling thread.
pub fn fresh_thread_if<R: Send>(needed: bool, f: impl FnOnce() -> R + Send) -> R {
    if needed { fresh_thread(f) } else { f() }
}

pub fn fresh_thread<R: Send>(f: impl FnOnce() -> R + Send) -> R {
    std::thread::scope(|s| {
        let h = std::thread::Builder::new()
            .stack_size(4 << 20)
            .spawn_scoped(s, move || {
                // inherit the "quiet panics" convention of the worker
                worker::install_panic_hook();
                f()
            })
            .expect("spawn");
        match h.join() {
            Ok(r) => r,
            Err(p) => std::panic::resume_unwind(p),
        }
    })
}
