//! thread-sim kernel: a deterministic scheduler for real OS threads.
//!
//! Exactly one registered thread runs at a time (it "holds the baton"). Every blocking operation of
//! the shims — channel send/recv, thread start, join, pool task pick-up, and the harness' own
//! sink/source calls (`yield_now`) — is a scheduling point at which a seeded strategy chooses the
//! next thread among those whose wait condition holds. Enabledness is computed from the exact
//! channel state (the channels are ours), so a deadlock ("no thread enabled, some not finished")
//! is detected precisely, not by timeout.
//!
//! Every choice with more than one option is recorded as (options, chosen); the list replays the
//! run exactly (`Strategy::Replay`) and is what the minimiser edits.

use std::{
    cell::RefCell,
    collections::{HashMap, VecDeque},
    panic::{self, AssertUnwindSafe},
    sync::{Arc, Condvar, Mutex},
    thread::ThreadId,
};

pub type Cond = Box<dyn Fn(&Inner) -> bool + Send>;
type Task = Box<dyn FnOnce() + Send>;

#[derive(Clone, Copy, PartialEq, Eq, Debug)]
enum Status {
    Running,
    Waiting,
    Finished,
}

struct Th {
    status: Status,
    cond: Option<Cond>,
    label: &'static str,
    /// PCT priority (higher runs first)
    prio: i64,
    is_worker: bool,
}

/// How the next thread is chosen among the enabled ones.
#[derive(Clone, Debug)]
pub enum ThreadPolicy {
    /// uniformly at random
    Random,
    /// PCT: random distinct priorities; at each of the `change_points` (scheduling step indices)
    /// the running thread's priority drops below all others
    Pct { change_points: Vec<u64> },
    /// keep running the lowest-numbered enabled thread (thread 0 = caller): lets the submitter fill
    /// the in-flight window before any worker runs
    LowestFirst,
    /// keep running the highest-numbered enabled thread
    HighestFirst,
}

/// How a pool worker picks among the queued tasks.
#[derive(Clone, Debug)]
pub enum PickPolicy {
    Random,
    Fifo,
    Lifo,
    /// pick queue index `perm[k % perm.len()] % queue_len` for the k-th pick
    Pattern(Vec<u32>),
}

#[derive(Clone, Debug)]
pub struct Strategy {
    pub seed: u64,
    pub threads: ThreadPolicy,
    pub picks: PickPolicy,
    /// explicit decision list: when present it overrides the policies until exhausted
    pub replay: Option<Vec<u32>>,
}

struct Chooser {
    state: u64,
    strategy: Strategy,
    replay_pos: usize,
    picks_done: usize,
}

impl Chooser {
    fn rnd(&mut self, n: usize) -> usize {
        self.state = self.state.wrapping_add(0x9e37_79b9_7f4a_7c15);
        let mut z = self.state;
        z = (z ^ (z >> 30)).wrapping_mul(0xbf58_476d_1ce4_e5b9);
        z = (z ^ (z >> 27)).wrapping_mul(0x94d0_49bb_1331_11eb);
        z ^= z >> 31;
        ((z as u128 * n as u128) >> 64) as usize
    }
}

pub struct Inner {
    threads: Vec<Th>,
    current: usize,
    chooser: Chooser,
    /// (options, chosen) for every choice with more than one option, in order
    pub decisions: Vec<(u32, u32)>,
    by_os_id: HashMap<ThreadId, usize>,
    pool_size: usize,
    pool_queue: VecDeque<(u64, Task)>,
    pool_workers: usize,
    pool_shutdown: bool,
    next_task: u64,
    /// task ids in the order workers picked them up (= completion order: tasks run atomically)
    pub task_order: Vec<u64>,
    pub steps: u64,
    pub switches: u64,
    pub max_queue: usize,
    step_bound: u64,
    next_prio: i64,
}

pub struct Sim {
    inner: Mutex<Inner>,
    cv: Condvar,
}

#[derive(Clone)]
pub struct Ctx {
    sim: Arc<Sim>,
    tid: usize,
}

thread_local! {
    static CTX: RefCell<Option<Ctx>> = const { RefCell::new(None) };
}

pub fn ctx() -> Option<Ctx> {
    CTX.with(|c| c.borrow().clone())
}

pub fn in_simulation() -> bool {
    CTX.with(|c| c.borrow().is_some())
}

fn die(kind: &str, g: &Inner) -> ! {
    let states: Vec<_> = g
        .threads
        .iter()
        .enumerate()
        .map(|(i, t)| format!("t{i}:{:?}@{}", t.status, t.label))
        .collect();
    eprintln!("{kind} at step {}: {}", g.steps, states.join(" "));
    // blocked OS threads cannot be unwound safely: the worker process ends here and the
    // orchestrator attributes the death to the announced case
    std::process::abort();
}

impl Sim {
    fn schedule(&self, g: &mut Inner) {
        g.steps += 1;
        if g.steps > g.step_bound {
            die("SIM STEP BOUND exceeded (livelock)", g);
        }
        let mut enabled = Vec::new();
        for i in 0..g.threads.len() {
            if g.threads[i].status == Status::Waiting {
                let c = g.threads[i].cond.take().expect("waiting thread without cond");
                let ok = c(g);
                g.threads[i].cond = Some(c);
                if ok {
                    enabled.push(i);
                }
            }
        }
        if enabled.is_empty() {
            if g.threads.iter().all(|t| t.status == Status::Finished) {
                g.current = usize::MAX;
                return;
            }
            die("SIM DEADLOCK", g);
        }
        let k = if enabled.len() == 1 {
            0
        } else {
            let n = enabled.len();
            let k = if let Some(list) = g.chooser.strategy.replay.as_ref().filter(|l| g.chooser.replay_pos < l.len()) {
                let c = list[g.chooser.replay_pos] as usize;
                g.chooser.replay_pos += 1;
                c.min(n - 1)
            } else {
                match g.chooser.strategy.threads.clone() {
                    ThreadPolicy::Random => g.chooser.rnd(n),
                    ThreadPolicy::LowestFirst => 0,
                    ThreadPolicy::HighestFirst => n - 1,
                    ThreadPolicy::Pct { change_points } => {
                        if change_points.contains(&g.steps) {
                            // demote whoever ran last
                            let cur = g.current;
                            if cur < g.threads.len() {
                                g.next_prio -= 1;
                                g.threads[cur].prio = -1_000_000 + g.next_prio;
                            }
                        }
                        let mut best = 0;
                        for (j, &t) in enabled.iter().enumerate() {
                            if g.threads[t].prio > g.threads[enabled[best]].prio {
                                best = j;
                            }
                        }
                        best
                    }
                }
            };
            g.decisions.push((n as u32, k as u32));
            k
        };
        let tid = enabled[k];
        if tid != g.current {
            g.switches += 1;
        }
        g.threads[tid].status = Status::Running;
        g.threads[tid].cond = None;
        g.current = tid;
    }
}

impl Ctx {
    /// Scheduling point: the calling thread gives up the baton and resumes once `cond` holds and
    /// the strategy picks it.
    pub fn block_until(&self, label: &'static str, cond: impl Fn(&Inner) -> bool + Send + 'static) {
        let sim = &self.sim;
        let mut g = sim.inner.lock().unwrap();
        debug_assert_eq!(g.current, self.tid);
        let th = &mut g.threads[self.tid];
        th.status = Status::Waiting;
        th.cond = Some(Box::new(cond));
        th.label = label;
        sim.schedule(&mut g);
        sim.cv.notify_all();
        while !(g.current == self.tid && g.threads[self.tid].status == Status::Running) {
            g = sim.cv.wait(g).unwrap();
        }
    }
}

/// A scheduling point with no wait condition (used by the harness' sink/source objects).
pub fn yield_now(label: &'static str) {
    if let Some(ctx) = ctx() {
        ctx.block_until(label, |_| true);
    }
}

pub fn before_join<T>(handle: &std::thread::JoinHandle<T>) {
    if let Some(ctx) = ctx() {
        let os_id = handle.thread().id();
        let tid = *ctx
            .sim
            .inner
            .lock()
            .unwrap()
            .by_os_id
            .get(&os_id)
            .expect("join of a thread unknown to the simulator");
        ctx.block_until("join", move |g| g.threads[tid].status == Status::Finished);
    }
}

fn spawn_sim<F, T>(f: F, is_worker: bool) -> std::thread::JoinHandle<T>
where
    F: FnOnce() -> T + Send + 'static,
    T: Send + 'static,
{
    let ctx = ctx().expect("spawn_sim outside a simulation");
    let sim = ctx.sim.clone();
    let tid = {
        let mut g = sim.inner.lock().unwrap();
        // PCT priorities: a fresh random priority per thread, drawn from the run's PRNG
        let prio = (g.chooser.rnd(1 << 30)) as i64;
        g.threads.push(Th {
            status: Status::Waiting,
            cond: Some(Box::new(|_| true)),
            label: "start",
            prio,
            is_worker,
        });
        g.threads.len() - 1
    };
    let child_sim = sim.clone();
    let h = std::thread::spawn(move || {
        let sim = child_sim;
        CTX.with(|c| *c.borrow_mut() = Some(Ctx { sim: sim.clone(), tid }));
        {
            let mut g = sim.inner.lock().unwrap();
            while !(g.current == tid && g.threads[tid].status == Status::Running) {
                g = sim.cv.wait(g).unwrap();
            }
        }
        let r = panic::catch_unwind(AssertUnwindSafe(f));
        {
            let mut g = sim.inner.lock().unwrap();
            g.threads[tid].status = Status::Finished;
            g.threads[tid].label = if r.is_ok() { "finished" } else { "panicked" };
            sim.schedule(&mut g);
            sim.cv.notify_all();
        }
        CTX.with(|c| *c.borrow_mut() = None);
        match r {
            Ok(v) => v,
            Err(p) => panic::resume_unwind(p),
        }
    });
    sim.inner.lock().unwrap().by_os_id.insert(h.thread().id(), tid);
    // the spawning thread reaches a scheduling point too: the child may run first
    ctx.block_until("spawn", |_| true);
    h
}

pub mod thread {
    pub use std::thread::JoinHandle;

    /// `std::thread::spawn` whose child is registered with the simulator (real OS thread, real
    /// `JoinHandle`). Outside a simulation it is plain `std::thread::spawn`.
    pub fn spawn<F, T>(f: F) -> JoinHandle<T>
    where
        F: FnOnce() -> T + Send + 'static,
        T: Send + 'static,
    {
        if super::ctx().is_none() {
            return std::thread::spawn(f);
        }
        super::spawn_sim(f, false)
    }
}

/// Rayon shim entry points.
pub fn pool_size() -> Option<usize> {
    ctx().map(|c| c.sim.inner.lock().unwrap().pool_size)
}

pub fn pool_spawn(f: Task) -> Result<(), Task> {
    let Some(ctx) = ctx() else { return Err(f) };
    let to_spawn = {
        let mut g = ctx.sim.inner.lock().unwrap();
        let id = g.next_task;
        g.next_task += 1;
        g.pool_queue.push_back((id, f));
        g.max_queue = g.max_queue.max(g.pool_queue.len());
        let n = g.pool_size - g.pool_workers;
        g.pool_workers = g.pool_size;
        n
    };
    for _ in 0..to_spawn {
        spawn_sim(worker_loop, true);
    }
    Ok(())
}

fn worker_loop() {
    let ctx = ctx().unwrap();
    loop {
        ctx.block_until("pool-idle", |g| !g.pool_queue.is_empty() || g.pool_shutdown);
        let task = {
            let mut g = ctx.sim.inner.lock().unwrap();
            if g.pool_queue.is_empty() {
                None
            } else {
                let n = g.pool_queue.len();
                let k = if n == 1 {
                    0
                } else {
                    let k = if let Some(list) = g.chooser.strategy.replay.as_ref().filter(|l| g.chooser.replay_pos < l.len()) {
                        let c = list[g.chooser.replay_pos] as usize;
                        g.chooser.replay_pos += 1;
                        c.min(n - 1)
                    } else {
                        match g.chooser.strategy.picks.clone() {
                            PickPolicy::Random => g.chooser.rnd(n),
                            PickPolicy::Fifo => 0,
                            PickPolicy::Lifo => n - 1,
                            PickPolicy::Pattern(p) => {
                                let i = g.chooser.picks_done;
                                (p[i % p.len()] as usize) % n
                            }
                        }
                    };
                    g.decisions.push((n as u32, k as u32));
                    k
                };
                g.chooser.picks_done += 1;
                let t = g.pool_queue.remove(k);
                if let Some((id, _)) = &t {
                    let id = *id;
                    g.task_order.push(id);
                }
                t
            }
        };
        match task {
            Some((_, f)) => {
                // tasks run atomically (no scheduling point inside): completion order = pick order
                let _ = panic::catch_unwind(AssertUnwindSafe(f));
            }
            None => break,
        }
    }
}

pub struct Outcome<R> {
    pub result: std::thread::Result<R>,
    pub decisions: Vec<(u32, u32)>,
    pub task_order: Vec<u64>,
    pub steps: u64,
    pub switches: u64,
    pub threads: usize,
    pub max_queue: usize,
}

/// Runs `scenario` on the calling thread as simulated thread 0 under `strategy` with a pool of
/// `pool_size` simulated workers (what `rayon::current_num_threads()` reports).
pub fn run<R>(strategy: Strategy, pool_size: usize, step_bound: u64, scenario: impl FnOnce() -> R) -> Outcome<R> {
    let seed = strategy.seed;
    let sim = Arc::new(Sim {
        inner: Mutex::new(Inner {
            threads: vec![Th {
                status: Status::Running,
                cond: None,
                label: "main",
                prio: 1 << 29,
                is_worker: false,
            }],
            current: 0,
            chooser: Chooser {
                state: seed,
                strategy,
                replay_pos: 0,
                picks_done: 0,
            },
            decisions: Vec::new(),
            by_os_id: HashMap::new(),
            pool_size: pool_size.max(1),
            pool_queue: VecDeque::new(),
            pool_workers: 0,
            pool_shutdown: false,
            next_task: 0,
            task_order: Vec::new(),
            steps: 0,
            switches: 0,
            max_queue: 0,
            step_bound,
            next_prio: 0,
        }),
        cv: Condvar::new(),
    });
    let ctx = Ctx {
        sim: sim.clone(),
        tid: 0,
    };
    CTX.with(|c| *c.borrow_mut() = Some(ctx.clone()));
    let result = panic::catch_unwind(AssertUnwindSafe(scenario));
    sim.inner.lock().unwrap().pool_shutdown = true;
    // every simulated thread must come to an end: a thread still blocked here is a deadlock
    ctx.block_until("drain", |g| {
        g.threads
            .iter()
            .skip(1)
            .all(|t| t.status == Status::Finished)
    });
    CTX.with(|c| *c.borrow_mut() = None);
    let mut g = sim.inner.lock().unwrap();
    let _ = g.threads.iter().filter(|t| t.is_worker).count();
    Outcome {
        result,
        decisions: std::mem::take(&mut g.decisions),
        task_order: std::mem::take(&mut g.task_order),
        steps: g.steps,
        switches: g.switches,
        threads: g.threads.len(),
        max_queue: g.max_queue,
    }
}
