//! Text-format models written by harness code: FASTA, FASTQ, GFF3, GTF, BED.

use serde::{Deserialize, Serialize};

use crate::kernel::Rng;

#[derive(Clone, Debug, Serialize, Deserialize, PartialEq)]
pub struct TextParams {
    pub seed: u64,
    pub n_records: usize,
    /// CRLF line terminators (where the reader supports them)
    pub crlf: bool,
    /// FASTA line width
    pub width: usize,
    pub max_len: usize,
}

pub fn gen_params(rng: &mut Rng, size_class: u8) -> TextParams {
    let n_records = match size_class {
        0 => rng.usize_below(4),
        1 => 1 + rng.usize_below(8),
        2 => 5 + rng.usize_below(80),
        _ => 100 + rng.usize_below(1500),
    };
    TextParams {
        seed: rng.next_u64(),
        n_records,
        crlf: rng.chance(1, 3),
        width: *rng.pick(&[1usize, 2, 3, 10, 60, 70, 80, 200]),
        max_len: match size_class {
            0 => 20,
            1 => 150,
            2 => 600,
            _ => *rng.pick(&[100usize, 1000, 20_000]),
        },
    }
}

#[derive(Clone, Debug)]
pub struct FastaRec {
    pub name: String,
    pub description: Option<String>,
    pub sequence: Vec<u8>,
}

#[derive(Clone, Debug)]
pub struct FastaModel {
    pub records: Vec<FastaRec>,
    pub text: Vec<u8>,
    /// byte offset of the start of each record (the '>' byte)
    pub starts: Vec<usize>,
}

/// `word` with, now and then, a 2- or 3-byte UTF-8 character (descriptions, attribute values and
/// names are free text): a delivery boundary can then fall inside a multi-byte sequence.
fn uword(rng: &mut Rng, max: usize) -> String {
    let mut w = word(rng, max);
    if rng.chance(1, 8) {
        let at = rng.usize_below(w.len() + 1);
        w.insert(at, if rng.bool() { 'é' } else { '→' });
    }
    w
}

fn word(rng: &mut Rng, max: usize) -> String {
    let n = 1 + rng.usize_below(max);
    (0..n)
        .map(|_| {
            (match rng.below(5) {
                0 => b'0' + rng.below(10) as u8,
                1 => b'A' + rng.below(26) as u8,
                2 => *rng.pick(b"_.-:|"),
                _ => b'a' + rng.below(26) as u8,
            }) as char
        })
        .collect()
}

pub fn fasta(p: &TextParams) -> FastaModel {
    let mut rng = Rng::new(p.seed);
    let nl: &[u8] = if p.crlf { b"\r\n" } else { b"\n" };
    let mut records = Vec::new();
    let mut text = Vec::new();
    let mut starts = Vec::new();
    for i in 0..p.n_records {
        let name = format!("sq{i}{}", if rng.bool() { word(&mut rng, 6) } else { String::new() });
        let description = rng.chance(1, 3).then(|| {
            let n = 1 + rng.usize_below(3);
            (0..n).map(|_| uword(&mut rng, 8)).collect::<Vec<_>>().join(" ")
        });
        let len = match rng.below(8) {
            // empty sequences are rejected by the FASTA indexer by design: not generated
            0 | 1 => 1,
            2 => p.width,
            3 => p.width * (1 + rng.usize_below(3)),
            _ => 1 + rng.usize_below(p.max_len),
        };
        let alpha: &[u8] = if rng.chance(1, 4) { b"ACGTNacgtnRYKM" } else { b"ACGT" };
        let sequence: Vec<u8> = (0..len).map(|_| *rng.pick(alpha)).collect();
        starts.push(text.len());
        text.push(b'>');
        text.extend_from_slice(name.as_bytes());
        if let Some(d) = &description {
            text.push(b' ');
            text.extend_from_slice(d.as_bytes());
        }
        text.extend_from_slice(nl);
        for line in sequence.chunks(p.width) {
            text.extend_from_slice(line);
            text.extend_from_slice(nl);
        }
        records.push(FastaRec {
            name,
            description,
            sequence,
        });
    }
    FastaModel { records, text, starts }
}

#[derive(Clone, Debug)]
pub struct FastqRec {
    pub name: String,
    pub description: String,
    pub sequence: Vec<u8>,
    pub quality: Vec<u8>,
}

#[derive(Clone, Debug)]
pub struct FastqModel {
    pub records: Vec<FastqRec>,
    pub text: Vec<u8>,
    pub starts: Vec<usize>,
}

pub fn fastq(p: &TextParams) -> FastqModel {
    let mut rng = Rng::new(p.seed);
    let nl: &[u8] = if p.crlf { b"\r\n" } else { b"\n" };
    let mut records = Vec::new();
    let mut text = Vec::new();
    let mut starts = Vec::new();
    for i in 0..p.n_records {
        let name = format!("r{i}{}", if rng.bool() { word(&mut rng, 8) } else { String::new() });
        let description = if rng.chance(1, 3) { uword(&mut rng, 10) } else { String::new() };
        let len = if rng.chance(1, 10) { 1 } else { 1 + rng.usize_below(p.max_len.max(1)) };
        let sequence: Vec<u8> = (0..len).map(|_| *rng.pick(b"ACGTN")).collect();
        // quality may start with '@' or '+': classic parser traps
        let quality: Vec<u8> = (0..len).map(|_| b'!' + rng.below(73) as u8).collect();
        starts.push(text.len());
        text.push(b'@');
        text.extend_from_slice(name.as_bytes());
        if !description.is_empty() {
            text.push(b' ');
            text.extend_from_slice(description.as_bytes());
        }
        text.extend_from_slice(nl);
        text.extend_from_slice(&sequence);
        text.extend_from_slice(nl);
        text.push(b'+');
        if rng.chance(1, 5) {
            text.extend_from_slice(name.as_bytes());
        }
        text.extend_from_slice(nl);
        text.extend_from_slice(&quality);
        text.extend_from_slice(nl);
        records.push(FastqRec {
            name,
            description,
            sequence,
            quality,
        });
    }
    FastqModel { records, text, starts }
}

/// Line-oriented feature formats: the model is the list of lines.
#[derive(Clone, Debug)]
pub struct LinesModel {
    pub lines: Vec<String>,
    pub text: Vec<u8>,
    pub starts: Vec<usize>,
}

fn finish_lines(lines: Vec<String>, crlf: bool) -> LinesModel {
    let nl = if crlf { "\r\n" } else { "\n" };
    let mut text = Vec::new();
    let mut starts = Vec::new();
    for l in &lines {
        starts.push(text.len());
        text.extend_from_slice(l.as_bytes());
        text.extend_from_slice(nl.as_bytes());
    }
    LinesModel { lines, text, starts }
}

fn pct(rng: &mut Rng) -> String {
    // attribute value with characters that need percent-encoding in GFF3
    let mut s = uword(rng, 8);
    if rng.chance(1, 4) {
        s.push_str(*rng.pick(&["%3B", "%3D", "%2C", "%25", "%26", "%09"]));
        s.push_str(&word(rng, 3));
    }
    s
}

pub fn gff(p: &TextParams) -> LinesModel {
    let mut rng = Rng::new(p.seed);
    let mut lines = vec!["##gff-version 3".to_string()];
    if rng.bool() {
        lines.push("##sequence-region sq0 1 100000".to_string());
    }
    for i in 0..p.n_records {
        if rng.chance(1, 10) {
            lines.push(format!("#comment {}", word(&mut rng, 10)));
        }
        if rng.chance(1, 20) {
            lines.push("###".to_string());
        }
        let start = 1 + rng.usize_below(90_000);
        let end = start + rng.usize_below(5000);
        let score = if rng.bool() { ".".to_string() } else { (*rng.pick(&["0.5", "12", "2.25", "100"])).to_string() };
        let strand = *rng.pick(&["+", "-", ".", "?"]);
        let ty = *rng.pick(&["gene", "mRNA", "exon", "CDS"]);
        let phase = if ty == "CDS" { (*rng.pick(&["0", "1", "2"])).to_string() } else { ".".to_string() };
        let mut attrs: Vec<String> = vec![format!("ID={ty}{i}")];
        if rng.bool() {
            attrs.push(format!("Name={}", pct(&mut rng)));
        }
        if rng.chance(1, 3) {
            attrs.push(format!("Parent=p{},p{}", rng.below(10), rng.below(10)));
        }
        if rng.chance(1, 4) {
            attrs.push(format!("Note={}", pct(&mut rng)));
        }
        let attrs = if rng.chance(1, 12) { ".".to_string() } else { attrs.join(";") };
        lines.push(format!(
            "sq{}\tnsim\t{ty}\t{start}\t{end}\t{score}\t{strand}\t{phase}\t{attrs}",
            rng.below(3)
        ));
    }
    finish_lines(lines, p.crlf)
}

pub fn gtf(p: &TextParams) -> LinesModel {
    let mut rng = Rng::new(p.seed);
    let mut lines = Vec::new();
    for i in 0..p.n_records {
        if rng.chance(1, 12) {
            lines.push(format!("#{}", word(&mut rng, 10)));
        }
        let start = 1 + rng.usize_below(90_000);
        let end = start + rng.usize_below(5000);
        let score = if rng.bool() { ".".to_string() } else { (*rng.pick(&["0.5", "12", "100"])).to_string() };
        let strand = *rng.pick(&["+", "-", "."]);
        let ty = *rng.pick(&["gene", "transcript", "exon", "CDS"]);
        let frame = if ty == "CDS" { (*rng.pick(&["0", "1", "2"])).to_string() } else { ".".to_string() };
        let mut attrs = format!("gene_id \"g{}\"; transcript_id \"t{i}\";", rng.below(20));
        if rng.bool() {
            attrs.push_str(&format!(" gene_name \"{}\";", word(&mut rng, 8)));
        }
        lines.push(format!(
            "sq{}\tnsim\t{ty}\t{start}\t{end}\t{score}\t{strand}\t{frame}\t{attrs}",
            rng.below(3)
        ));
    }
    finish_lines(lines, false)
}

pub fn bed(p: &TextParams) -> LinesModel {
    let mut rng = Rng::new(p.seed);
    let mut lines = Vec::new();
    let extra = rng.below(3);
    for _ in 0..p.n_records {
        let start = rng.usize_below(90_000);
        let end = start + 1 + rng.usize_below(5000);
        let mut l = format!("sq{}\t{start}\t{end}", rng.below(3));
        for j in 0..extra {
            l.push('\t');
            if j == 0 {
                l.push_str(&word(&mut rng, 8));
            } else {
                l.push_str(&rng.below(1000).to_string());
            }
        }
        lines.push(l);
    }
    // comment lines (skipped by the reader) before some records, sometimes two in a row, sometimes
    // empty ("#" alone): the text has them, the record list does not
    let mut all = Vec::new();
    for l in &lines {
        while rng.chance(1, 4) {
            all.push(match rng.below(3) {
                0 => "#".to_string(),
                1 => format!("#{}", word(&mut rng, 12)),
                _ => format!("# {}\t{}", word(&mut rng, 5), rng.below(1000)),
            });
        }
        all.push(l.clone());
    }
    let mut m = finish_lines(all, p.crlf);
    m.lines = lines;
    m
}
