//! Registry of file kinds: how a valid file of each kind is generated (model + real noodles writer
//! on a fault-free Vec) and how a source of that kind is read into an observation.

use std::io::{self, Read};
use std::sync::Arc;

use serde::{Deserialize, Serialize};

use super::{Obs, ObsBuf, Source, align, observe, text, variant};
use crate::genr::{bytes as gbytes, sam as gsam, text as gtext, vcf as gvcf};
use crate::kernel::Rng;
use crate::model::bgzf as mbgzf;

#[derive(Serialize, Deserialize, Clone, Copy, PartialEq, Eq, Debug, PartialOrd, Ord)]
pub enum Kind {
    Bgzf,
    Sam,
    SamGz,
    Bam,
    BamRaw,
    Vcf,
    VcfGz,
    Bcf,
    BcfRaw,
    Fasta,
    Fastq,
    Gff,
    Gtf,
    Bed,
}

pub const ALL_KINDS: &[Kind] = &[
    Kind::Bgzf,
    Kind::Sam,
    Kind::SamGz,
    Kind::Bam,
    Kind::BamRaw,
    Kind::Vcf,
    Kind::VcfGz,
    Kind::Bcf,
    Kind::BcfRaw,
    Kind::Fasta,
    Kind::Fastq,
    Kind::Gff,
    Kind::Gtf,
    Kind::Bed,
];

/// kinds whose readers C12 exercises under the delivery adversary
pub const C12_KINDS: &[Kind] = ALL_KINDS;

/// kinds whose files C13 truncates (the statement's list; plain text is excluded)
pub const C13_KINDS: &[Kind] = &[Kind::Bgzf, Kind::SamGz, Kind::Bam, Kind::BamRaw, Kind::VcfGz, Kind::Bcf, Kind::BcfRaw];

/// binary index kinds: a truncated file must give Err or an equal index
pub fn index_kind(_k: Kind) -> bool {
    false
}
/// raw record streams: a cut inside a record must be an error
pub fn record_stream_kind(k: Kind) -> bool {
    matches!(k, Kind::BamRaw | Kind::BcfRaw)
}
/// container formats: a cut inside a container must be an error
pub fn container_kind(_k: Kind) -> bool {
    false
}

pub fn variant_name(kind: Kind, v: u8) -> &'static str {
    match kind {
        Kind::Fasta => ["records", "read_definition+read_sequence", "Indexer"][(v % 3) as usize],
        Kind::Fastq => ["records", "Indexer"][(v % 2) as usize],
        Kind::Gff | Kind::Gtf => ["lines", "record_bufs"][(v % 2) as usize],
        Kind::Bed => "read_record",
        Kind::Bgzf => ["read_to_end", "read-777", "fill_buf"][(v % 3) as usize],
        Kind::Bam => ["records", "record_bufs", "read_record+positions"][(v % 3) as usize],
        _ => ["records", "record_bufs"][(v % 2) as usize],
    }
}

impl Kind {
    pub fn name(self) -> &'static str {
        match self {
            Kind::Bgzf => "bgzf",
            Kind::Sam => "sam",
            Kind::SamGz => "sam.gz",
            Kind::Bam => "bam",
            Kind::BamRaw => "bam-raw-stream",
            Kind::Vcf => "vcf",
            Kind::VcfGz => "vcf.gz",
            Kind::Bcf => "bcf",
            Kind::BcfRaw => "bcf-raw-stream",
            Kind::Fasta => "fasta",
            Kind::Fastq => "fastq",
            Kind::Gff => "gff",
            Kind::Gtf => "gtf",
            Kind::Bed => "bed",
        }
    }
    /// number of reading-protocol variants (lazy/buf records, ...)
    pub fn variants(self) -> u8 {
        match self {
            Kind::Bgzf => 3,
            Kind::Sam | Kind::SamGz | Kind::BamRaw => 2,
            Kind::Vcf | Kind::VcfGz | Kind::Bcf | Kind::BcfRaw => 2,
            Kind::Fasta => 3,
            Kind::Fastq | Kind::Gff | Kind::Gtf => 2,
            Kind::Bed => 1,
            Kind::Bam => 3,
        }
    }
    pub fn is_bgzf_container(self) -> bool {
        matches!(self, Kind::Bgzf | Kind::SamGz | Kind::Bam | Kind::VcfGz | Kind::Bcf)
    }
}

#[derive(Serialize, Deserialize, Clone, Debug, PartialEq)]
pub struct FileSpec {
    pub kind: Kind,
    /// 0 tiny, 1 small, 2 medium, 3 large
    pub size_class: u8,
    pub seed: u64,
}

pub struct Made {
    pub spec: FileSpec,
    pub bytes: Arc<Vec<u8>>,
    /// items a complete fault-free read yields (variant-independent part: H|, R| items)
    pub expected: Vec<String>,
    /// structural boundaries (byte offsets into `bytes`): BGZF member starts, record/line starts
    pub boundaries: Vec<usize>,
    /// for BGZF containers: the uncompressed stream
    pub flat: Option<mbgzf::Flat>,
}

fn bgzf_boundaries(file: &[u8]) -> (Vec<usize>, Option<mbgzf::Flat>) {
    match mbgzf::walk(file) {
        Ok(w) => {
            let mut b: Vec<usize> = w.members.iter().map(|m| m.cpos as usize).collect();
            b.push(file.len());
            let n = file.len();
            (b, Some(mbgzf::Flat::from_walk(w, n)))
        }
        Err(_) => (Vec::new(), None),
    }
}

fn line_boundaries(text: &[u8]) -> Vec<usize> {
    let mut b = vec![0];
    for (i, &c) in text.iter().enumerate() {
        if c == b'\n' {
            b.push(i + 1);
        }
    }
    b
}

pub fn make(spec: &FileSpec) -> io::Result<Made> {
    let mut rng = Rng::new(spec.seed);
    let (bytes, expected, boundaries, flat): (Vec<u8>, Vec<String>, Vec<usize>, Option<mbgzf::Flat>) = match spec.kind {
        Kind::Bgzf => {
            use std::io::Write;
            let len = match spec.size_class {
                0 => rng.usize_below(40),
                1 => rng.usize_below(600),
                2 => 1000 + rng.usize_below(70_000),
                _ => 66_000 + rng.usize_below(250_000),
            };
            let payload = gbytes::Payload {
                class: *rng.pick(&gbytes::CLASSES),
                len,
                seed: rng.next_u64(),
            }
            .bytes();
            let mut w = noodles_bgzf::io::Writer::new(Vec::new());
            // several members also for small files
            let n_flush = rng.usize_below(4);
            let mut cuts: Vec<usize> = (0..n_flush).map(|_| rng.usize_below(len + 1)).collect();
            cuts.sort();
            let mut prev = 0;
            for c in cuts {
                w.write_all(&payload[prev..c])?;
                w.flush()?;
                prev = c;
            }
            w.write_all(&payload[prev..])?;
            let file = w.finish()?;
            let (b, flat) = bgzf_boundaries(&file);
            let _ = payload;
            (file, Vec::new(), b, flat)
        }
        Kind::Sam | Kind::SamGz | Kind::Bam | Kind::BamRaw => {
            let params = gsam::gen_params(&mut rng, spec.size_class);
            let model = gsam::generate(&params);
            let parsed = align::parse_model(&model)?;
            let expected = align::expected_items(&model);
            match spec.kind {
                Kind::Sam => {
                    let file = align::write_sam(Vec::new(), &parsed)?;
                    let b = line_boundaries(&file);
                    (file, expected, b, None)
                }
                Kind::SamGz => {
                    let file = align::write_samgz(Vec::new(), &parsed)?;
                    let (b, flat) = bgzf_boundaries(&file);
                    (file, expected, b, flat)
                }
                Kind::Bam => {
                    let mut file = Vec::new();
                    align::write_bam(&mut file, &parsed)?;
                    let (b, flat) = bgzf_boundaries(&file);
                    (file, expected, b, flat)
                }
                _ => {
                    let file = align::write_bam_raw(Vec::new(), &parsed)?;
                    let b = bam_raw_boundaries(&file);
                    (file, expected, b, None)
                }
            }
        }
        Kind::Vcf | Kind::VcfGz | Kind::Bcf | Kind::BcfRaw => {
            let params = gvcf::gen_params(&mut rng, spec.size_class);
            let model = gvcf::generate(&params);
            let parsed = variant::parse_model(&model)?;
            let expected = variant::expected_items(&model);
            match spec.kind {
                Kind::Vcf => {
                    let file = variant::write_vcf(Vec::new(), &parsed)?;
                    let b = line_boundaries(&file);
                    (file, expected, b, None)
                }
                Kind::VcfGz => {
                    let file = variant::write_vcfgz(Vec::new(), &parsed)?;
                    let (b, flat) = bgzf_boundaries(&file);
                    (file, expected, b, flat)
                }
                Kind::Bcf => {
                    let mut file = Vec::new();
                    variant::write_bcf(&mut file, &parsed)?;
                    let (b, flat) = bgzf_boundaries(&file);
                    (file, expected, b, flat)
                }
                _ => {
                    let file = variant::write_bcf_raw(Vec::new(), &parsed)?;
                    let b = bcf_raw_boundaries(&file);
                    (file, expected, b, None)
                }
            }
        }
        Kind::Fasta => {
            let m = gtext::fasta(&gtext::gen_params(&mut rng, spec.size_class));
            let mut b = m.starts.clone();
            b.push(m.text.len());
            let e = text::fasta_expected(&m);
            (m.text, e, b, None)
        }
        Kind::Fastq => {
            let m = gtext::fastq(&gtext::gen_params(&mut rng, spec.size_class));
            let mut b = m.starts.clone();
            b.push(m.text.len());
            let e = text::fastq_expected(&m);
            (m.text, e, b, None)
        }
        Kind::Gff | Kind::Gtf | Kind::Bed => {
            let p = gtext::gen_params(&mut rng, spec.size_class);
            let m = match spec.kind {
                Kind::Gff => gtext::gff(&p),
                Kind::Gtf => gtext::gtf(&p),
                _ => gtext::bed(&p),
            };
            let mut b = m.starts.clone();
            b.push(m.text.len());
            let e: Vec<String> = m.lines.iter().map(|l| format!("L|{l}")).collect();
            (m.text, e, b, None)
        }
    };
    Ok(Made {
        spec: spec.clone(),
        bytes: Arc::new(bytes),
        expected,
        boundaries,
        flat,
    })
}

/// Record starts in an uncompressed BAM stream (harness parse of the documented layout).
pub fn bam_raw_boundaries(b: &[u8]) -> Vec<usize> {
    let mut out = vec![0usize];
    let rd = |p: usize| -> Option<usize> {
        b.get(p..p + 4)
            .map(|x| u32::from_le_bytes(x.try_into().unwrap()) as usize)
    };
    let mut p = 4;
    let Some(l_text) = rd(p) else { return out };
    p += 4 + l_text;
    let Some(n_ref) = rd(p) else { return out };
    p += 4;
    for _ in 0..n_ref {
        let Some(l_name) = rd(p) else { return out };
        p += 4 + l_name + 4;
    }
    out.push(p);
    while let Some(bs) = rd(p) {
        p += 4 + bs;
        if p > b.len() {
            break;
        }
        out.push(p);
    }
    out
}

/// Record starts in an uncompressed BCF stream: magic(5) l_text(4) text, then l_shared(4) l_indiv(4) ...
pub fn bcf_raw_boundaries(b: &[u8]) -> Vec<usize> {
    let mut out = vec![0usize];
    let rd = |p: usize| -> Option<usize> {
        b.get(p..p + 4)
            .map(|x| u32::from_le_bytes(x.try_into().unwrap()) as usize)
    };
    let mut p = 5;
    let Some(l_text) = rd(p) else { return out };
    p += 4 + l_text;
    out.push(p);
    while let (Some(ls), Some(li)) = (rd(p), rd(p + 4)) {
        p += 8 + ls + li;
        if p > b.len() {
            break;
        }
        out.push(p);
    }
    out
}

pub fn hex(b: &[u8]) -> String {
    // compact content identity for byte payloads: length + hash + first bytes
    format!(
        "len={} hash={:016x} head={:02x?}",
        b.len(),
        crate::kernel::prng::hash_bytes(b),
        &b[..b.len().min(8)]
    )
}

/// Reads a source of the given kind to the end with reading-protocol variant `variant`.
pub fn read(kind: Kind, variant: u8, src: Source) -> Obs {
    observe(|o| {
        let ObsBuf { items, bytes: out } = o;
        match kind {
        Kind::Bgzf => {
            let mut r = noodles_bgzf::io::Reader::new(src.into_read());
            match variant % 3 {
                0 => {
                    r.read_to_end(out)?;
                }
                1 => {
                    // small fixed-size reads
                    let mut buf = [0u8; 777];
                    loop {
                        let n = match r.read(&mut buf) {
                            Ok(n) => n,
                            Err(e) if e.kind() == io::ErrorKind::Interrupted => continue,
                            Err(e) => return Err(e),
                        };
                        if n == 0 {
                            break;
                        }
                        out.extend_from_slice(&buf[..n]);
                    }
                }
                _ => {
                    use std::io::BufRead;
                    loop {
                        let w = match r.fill_buf() {
                            Ok(w) => w,
                            Err(e) if e.kind() == io::ErrorKind::Interrupted => continue,
                            Err(e) => return Err(e),
                        };
                        if w.is_empty() {
                            break;
                        }
                        let n = w.len();
                        out.extend_from_slice(w);
                        r.consume(n);
                    }
                }
            }
            items.push(format!("P|{}", u64::from(r.virtual_position())));
            Ok(())
        }
        Kind::Sam => align::read_sam(src, mode(variant), items),
        Kind::SamGz => align::read_samgz(src, mode(variant), items),
        Kind::Bam => match variant % 3 {
            2 => align::read_bam_positions(src, items),
            v => align::read_bam(src, mode(v), items),
        },
        Kind::BamRaw => align::read_bam_raw(src, mode(variant), items),
        Kind::Vcf => variant::read_vcf(src, mode(variant), items),
        Kind::VcfGz => variant::read_vcfgz(src, mode(variant), items),
        Kind::Bcf => variant::read_bcf(src, mode(variant), items),
        Kind::BcfRaw => variant::read_bcf_raw(src, mode(variant), items),
        Kind::Fasta => text::read_fasta(src, variant, items),
        Kind::Fastq => text::read_fastq(src, variant, items),
        Kind::Gff => text::read_gff(src, variant, items),
        Kind::Gtf => text::read_gtf(src, variant, items),
        Kind::Bed => text::read_bed(src, variant, items),
        }
    })
}

fn mode(variant: u8) -> align::Mode {
    if variant % 2 == 0 {
        align::Mode::Lazy
    } else {
        align::Mode::Buf
    }
}

/// Does `Made.expected` describe what this variant yields (else only End::Eof is checked by the
/// domain self-test)?
pub fn has_model(kind: Kind, variant: u8) -> bool {
    match kind {
        Kind::Fasta | Kind::Fastq => variant == 0,
        Kind::Gff | Kind::Gtf => variant == 0,
        Kind::Bed => false,
        _ => true,
    }
}

/// The H|/R| part of an observation (positions and other variant-specific items removed).
pub fn content_items(items: &[String]) -> Vec<String> {
    items
        .iter()
        .filter(|s| s.starts_with("H|") || s.starts_with("R|") || s.starts_with("L|"))
        .cloned()
        .collect()
}
