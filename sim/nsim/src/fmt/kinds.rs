//! Registry of file kinds: how a valid file of each kind is generated (model + real noodles writer
//! on a fault-free Vec), how a model is written through the careful-user protocol to any sink, and
//! how a source of that kind is read into an observation.

use std::io::{self, BufRead, Read, Write};
use std::sync::Arc;

use serde::{Deserialize, Serialize};

use super::{Obs, ObsBuf, Source, align, cram, index, observe, text, variant};
use crate::genr::{bytes as gbytes, sam as gsam, text as gtext, vcf as gvcf};
use crate::kernel::Rng;
use crate::model::bgzf as mbgzf;

#[derive(Serialize, Deserialize, Clone, Copy, PartialEq, Eq, Debug, PartialOrd, Ord)]
pub enum Kind {
    Bgzf,
    Sam,
    SamGz,
    Bam,
    BamRaw,
    Vcf,
    VcfGz,
    Bcf,
    BcfRaw,
    Fasta,
    Fastq,
    Gff,
    Gtf,
    Bed,
    Bai,
    Csi,
    Tabix,
    Gzi,
    Fai,
    Cram,
    Crai,
}

pub const ALL_KINDS: &[Kind] = &[
    Kind::Bgzf,
    Kind::Sam,
    Kind::SamGz,
    Kind::Bam,
    Kind::BamRaw,
    Kind::Vcf,
    Kind::VcfGz,
    Kind::Bcf,
    Kind::BcfRaw,
    Kind::Fasta,
    Kind::Fastq,
    Kind::Gff,
    Kind::Gtf,
    Kind::Bed,
    Kind::Bai,
    Kind::Csi,
    Kind::Tabix,
    Kind::Gzi,
    Kind::Fai,
    Kind::Cram,
    Kind::Crai,
];

/// kinds whose readers C12 exercises under the delivery adversary
pub const C12_KINDS: &[Kind] = ALL_KINDS;

/// kinds whose files C13 truncates (the statement's list; plain text formats are excluded; the
/// text index fai is an "index file" and is included)
pub const C13_KINDS: &[Kind] = &[
    Kind::Bgzf,
    Kind::SamGz,
    Kind::Bam,
    Kind::BamRaw,
    Kind::VcfGz,
    Kind::Bcf,
    Kind::BcfRaw,
    Kind::Bai,
    Kind::Csi,
    Kind::Tabix,
    Kind::Gzi,
    Kind::Fai,
    Kind::Cram,
    Kind::Crai,
];

/// kinds whose files C15 corrupts
pub const C15_KINDS: &[Kind] = ALL_KINDS;

/// kinds whose writers C14 drives against the faulty sink
pub const C14_KINDS: &[Kind] = ALL_KINDS;

/// binary index kinds: a truncated file must give Err or an equal index
pub fn index_kind(k: Kind) -> bool {
    matches!(k, Kind::Bai | Kind::Csi | Kind::Tabix | Kind::Gzi)
}
/// raw record streams: a cut inside a record must be an error
pub fn record_stream_kind(k: Kind) -> bool {
    matches!(k, Kind::BamRaw | Kind::BcfRaw)
}
/// container formats: a cut inside a container must be an error
pub fn container_kind(k: Kind) -> bool {
    k == Kind::Cram
}

pub fn variant_name(kind: Kind, v: u8) -> &'static str {
    match kind {
        Kind::Fasta => ["records", "read_definition+read_sequence", "Indexer"][(v % 3) as usize],
        Kind::Fastq => ["records", "Indexer"][(v % 2) as usize],
        Kind::Gff => ["lines", "record_bufs", "line_bufs"][(v % 3) as usize],
        Kind::Gtf => ["lines", "record_bufs"][(v % 2) as usize],
        Kind::Bed => "read_record",
        Kind::Bgzf => ["read_to_end", "read-777", "fill_buf"][(v % 3) as usize],
        Kind::Bam => ["records", "record_bufs", "read_record+positions", "util-facade"][(v % 4) as usize],
        Kind::Sam | Kind::SamGz | Kind::Vcf | Kind::VcfGz | Kind::Bcf => ["records", "record_bufs", "util-facade"][(v % 3) as usize],
        Kind::Bai | Kind::Csi | Kind::Tabix | Kind::Gzi | Kind::Fai | Kind::Crai => "read_index",
        Kind::Cram => ["records", "read_container+slices", "util-facade"][(v % 3) as usize],
        _ => ["records", "record_bufs"][(v % 2) as usize],
    }
}

impl Kind {
    pub fn name(self) -> &'static str {
        match self {
            Kind::Bgzf => "bgzf",
            Kind::Sam => "sam",
            Kind::SamGz => "sam.gz",
            Kind::Bam => "bam",
            Kind::BamRaw => "bam-raw-stream",
            Kind::Vcf => "vcf",
            Kind::VcfGz => "vcf.gz",
            Kind::Bcf => "bcf",
            Kind::BcfRaw => "bcf-raw-stream",
            Kind::Fasta => "fasta",
            Kind::Fastq => "fastq",
            Kind::Gff => "gff",
            Kind::Gtf => "gtf",
            Kind::Bed => "bed",
            Kind::Bai => "bai",
            Kind::Csi => "csi",
            Kind::Tabix => "tabix",
            Kind::Gzi => "gzi",
            Kind::Fai => "fai",
            Kind::Cram => "cram",
            Kind::Crai => "crai",
        }
    }
    /// number of reading-protocol variants (lazy/buf records, ...)
    pub fn variants(self) -> u8 {
        match self {
            Kind::Bam => 4,
            Kind::Bgzf | Kind::Fasta | Kind::Gff => 3,
            // records / record_bufs / the noodles-util facade reader
            Kind::Sam | Kind::SamGz | Kind::Vcf | Kind::VcfGz | Kind::Bcf | Kind::Cram => 3,
            Kind::Bed | Kind::Bai | Kind::Csi | Kind::Tabix | Kind::Gzi | Kind::Fai | Kind::Crai => 1,
            _ => 2,
        }
    }
    pub fn is_bgzf_container(self) -> bool {
        matches!(
            self,
            Kind::Bgzf | Kind::SamGz | Kind::Bam | Kind::VcfGz | Kind::Bcf | Kind::Csi | Kind::Tabix
        )
    }
}

#[derive(Serialize, Deserialize, Clone, Debug, PartialEq)]
pub struct FileSpec {
    pub kind: Kind,
    /// 0 tiny, 1 small, 2 medium, 3 large
    pub size_class: u8,
    pub seed: u64,
}

/// What the harness knows about the content before any noodles writer is involved.
pub enum Model {
    /// byte payload split into write calls with flushes at the cut points
    Bytes { payload: Vec<u8>, cuts: Vec<usize> },
    Align { model: gsam::SamModel, parsed: align::Parsed },
    Variant { model: gvcf::VcfModel, parsed: variant::Parsed },
    Fasta(gtext::FastaModel, usize),
    Fastq(gtext::FastqModel),
    Lines(gtext::LinesModel),
    Bai(noodles_bam::bai::Index),
    Csi(noodles_csi::Index),
    Tabix(noodles_tabix::Index),
    Gzi(noodles_bgzf::gzi::Index),
    Fai(noodles_fasta::fai::Index),
    Cram { model: gsam::SamModel, parsed: align::Parsed, opts: cram::CramOpts },
    Crai(noodles_cram::crai::Index),
}

pub struct Made {
    pub spec: FileSpec,
    pub model: Model,
    pub bytes: Arc<Vec<u8>>,
    /// items a complete fault-free read yields for model-backed variants (see `has_model`)
    pub expected: Vec<String>,
    /// structural boundaries (byte offsets into `bytes`): BGZF member starts, record/line starts
    pub boundaries: Vec<usize>,
    /// for BGZF containers: the block table and the uncompressed stream
    pub flat: Option<mbgzf::Flat>,
    /// for index kinds: the (intact) data file the index was built from
    pub companion: Option<(Kind, Arc<Vec<u8>>)>,
    /// for crai: the reference sequences of the companion CRAM
    pub cram_refs: Option<Vec<(String, Vec<u8>)>>,
}

fn bgzf_boundaries(file: &[u8]) -> (Vec<usize>, Option<mbgzf::Flat>) {
    match mbgzf::walk(file) {
        Ok(w) => {
            let mut b: Vec<usize> = w.members.iter().map(|m| m.cpos as usize).collect();
            b.push(file.len());
            let n = file.len();
            (b, Some(mbgzf::Flat::from_walk(w, n)))
        }
        Err(_) => (Vec::new(), None),
    }
}

fn line_boundaries(text: &[u8]) -> Vec<usize> {
    let mut b = vec![0];
    for (i, &c) in text.iter().enumerate() {
        if c == b'\n' {
            b.push(i + 1);
        }
    }
    b
}

fn other(e: impl std::fmt::Display) -> io::Error {
    io::Error::other(e.to_string())
}

/// Phase 1 of `make`: the model (pure function of the spec).
pub fn model(spec: &FileSpec) -> io::Result<Model> {
    model_with_companion(spec).map(|(m, _)| m)
}

/// The model plus, for index kinds, the data file the index belongs to.
pub fn model_with_companion(spec: &FileSpec) -> io::Result<(Model, Option<(Kind, Vec<u8>)>)> {
    let mut rng = Rng::new(spec.seed);
    let mut companion: Option<(Kind, Vec<u8>)> = None;
    let m = match spec.kind {
        Kind::Bgzf => {
            let len = match spec.size_class {
                0 => rng.usize_below(40),
                1 => rng.usize_below(600),
                2 => 1000 + rng.usize_below(70_000),
                _ => 66_000 + rng.usize_below(250_000),
            };
            let payload = gbytes::Payload {
                class: *rng.pick(&gbytes::CLASSES),
                len,
                seed: rng.next_u64(),
            }
            .bytes();
            let n_flush = rng.usize_below(4);
            let mut cuts: Vec<usize> = (0..n_flush).map(|_| rng.usize_below(len + 1)).collect();
            cuts.sort();
            Model::Bytes { payload, cuts }
        }
        Kind::Sam | Kind::SamGz | Kind::Bam | Kind::BamRaw => {
            let params = gsam::gen_params(&mut rng, spec.size_class);
            let model = gsam::generate(&params);
            let parsed = align::parse_model(&model)?;
            Model::Align { model, parsed }
        }
        Kind::Vcf | Kind::VcfGz | Kind::Bcf | Kind::BcfRaw => {
            let params = gvcf::gen_params(&mut rng, spec.size_class);
            let model = gvcf::generate(&params);
            let parsed = variant::parse_model(&model)?;
            Model::Variant { model, parsed }
        }
        Kind::Fasta => {
            let p = gtext::gen_params(&mut rng, spec.size_class);
            let w = p.width;
            Model::Fasta(gtext::fasta(&p), w)
        }
        Kind::Fastq => Model::Fastq(gtext::fastq(&gtext::gen_params(&mut rng, spec.size_class))),
        Kind::Gff => Model::Lines(gtext::gff(&gtext::gen_params(&mut rng, spec.size_class))),
        Kind::Gtf => Model::Lines(gtext::gtf(&gtext::gen_params(&mut rng, spec.size_class))),
        Kind::Bed => Model::Lines(gtext::bed(&gtext::gen_params(&mut rng, spec.size_class))),
        Kind::Bai | Kind::Csi => {
            // an index over a coordinate-sorted BAM (CSI: BAM or BCF)
            let from_bcf = spec.kind == Kind::Csi && rng.bool();
            if from_bcf {
                let mut params = gvcf::gen_params(&mut rng, spec.size_class.max(1));
                params.sorted = true;
                let model = gvcf::generate(&params);
                let parsed = variant::parse_model(&model)?;
                let mut bcf = Vec::new();
                variant::write_bcf(&mut bcf, &parsed)?;
                let m = Model::Csi(index::csi_normalise(&index::csi_from_bcf(&bcf)?)?);
                companion = Some((Kind::Bcf, bcf));
                m
            } else {
                let mut params = gsam::gen_params(&mut rng, spec.size_class.max(1));
                params.sorted = true;
                params.n_refs = params.n_refs.max(1);
                // now and then an indexed BAM without a single placed record
                params.all_unmapped = rng.chance(1, 8);
                let model = gsam::generate(&params);
                let parsed = align::parse_model(&model)?;
                let mut bam = Vec::new();
                align::write_bam(&mut bam, &parsed)?;
                let m = if spec.kind == Kind::Bai {
                    Model::Bai(index::bai_from_bam(&bam)?)
                } else {
                    Model::Csi(index::csi_normalise(&index::csi_from_bam(&bam)?)?)
                };
                companion = Some((Kind::Bam, bam));
                m
            }
        }
        Kind::Tabix => {
            let mut params = gvcf::gen_params(&mut rng, spec.size_class.max(1));
            params.sorted = true;
            let model = gvcf::generate(&params);
            let parsed = variant::parse_model(&model)?;
            let gz = variant::write_vcfgz(Vec::new(), &parsed)?;
            let m = Model::Tabix(index::tabix_from_vcfgz(&gz)?);
            companion = Some((Kind::VcfGz, gz));
            m
        }
        Kind::Gzi => {
            // a multi-member BGZF file (several flushes) and the gzi index of its block table
            let len = match spec.size_class {
                0 => rng.usize_below(200),
                1 => rng.usize_below(3000),
                2 => 1000 + rng.usize_below(70_000),
                _ => 66_000 + rng.usize_below(250_000),
            };
            let payload = gbytes::Payload {
                class: *rng.pick(&gbytes::CLASSES),
                len,
                seed: rng.next_u64(),
            }
            .bytes();
            let n_flush = 1 + rng.usize_below(if spec.size_class == 0 { 3 } else { 30 });
            let mut cuts: Vec<usize> = (0..n_flush).map(|_| rng.usize_below(len + 1)).collect();
            cuts.sort();
            let mut file = Vec::new();
            write_to(Kind::Bgzf, &Model::Bytes { payload, cuts }, &mut file)?;
            let w = mbgzf::walk(&file).map_err(other)?;
            let n = file.len();
            let flat = mbgzf::Flat::from_walk(w, n);
            // gzi lists every member after the first, incl. empty ones? htslib lists all but the
            // first data block; entries must be strictly usable by partition_point
            let entries = flat.gzi_entries();
            companion = Some((Kind::Bgzf, file));
            Model::Gzi(noodles_bgzf::gzi::Index::from(entries))
        }
        Kind::Cram | Kind::Crai => {
            let mut params = gsam::gen_params(&mut rng, spec.size_class);
            params.cram_safe = true;
            params.max_len = params.max_len.max(1);
            if params.n_records > 150 {
                params.n_records = 50 + params.n_records % 100;
            }
            if spec.kind == Kind::Crai {
                // one reference only: cram::fs::index decodes multi-reference slices with an empty
                // reference repository (a TODO in noodles) and fails on them
                params.sorted = true;
                params.n_refs = 1;
                params.all_mapped = true;
                params.n_records = params.n_records.max(3);
            }
            let model = gsam::generate(&params);
            let parsed = align::parse_model(&model)?;
            // encoders on which the unchanged tree round-trips exactly (cram::roundtrip_reliable)
            // (fqzcomp, bzip2 and lzma cost 10-40 ms per file and are drawn rarely)
            let encoder = match rng.below(48) {
                0..=2 => 9u8,
                3 => 3,
                4 => 4,
                n => [0u8, 1, 2][(n % 3) as usize],
            };
            let opts = cram::CramOpts {
                encoder,
                version: rng.below(3) as u8,
                preserve_read_names: rng.chance(3, 4),
                encode_alignment_start_positions_as_deltas: rng.bool(),
                encoder_arg: rng.below(2) as u8,
                // hook H3: several slices/containers with a handful of records
                records_per_slice: match rng.below(4) {
                    0 => None,
                    1 => Some(1),
                    _ => Some(1 + rng.usize_below(40)),
                },
            };
            set_cram_refs(&model.refs);
            if spec.kind == Kind::Cram {
                Model::Cram { model, parsed, opts }
            } else {
                let mut file = Vec::new();
                cram::write_cram(&mut file, &parsed, &model.refs, &opts)?;
                let idx = index::crai_from_cram(&file)?;
                companion = Some((Kind::Cram, file));
                Model::Crai(idx)
            }
        }
        Kind::Fai => {
            let m = gtext::fasta(&gtext::gen_params(&mut rng, spec.size_class));
            let idx = index::fai_from_fasta(&m.text)?;
            companion = Some((Kind::Fasta, m.text));
            Model::Fai(idx)
        }
    };
    Ok((m, companion))
}

/// The careful-user write protocol of each kind (DESIGN.md §12) against any sink.
thread_local! {
    /// C14 only: write SAM / SAM.gz / BAM / raw BAM through the noodles-util facade writer
    static FACADE_WRITER: std::cell::Cell<bool> = const { std::cell::Cell::new(false) };
}

thread_local! {
    /// C14 only: write SAM / SAM.gz / VCF / VCF.gz through the writers made by the format crates'
    /// `io::writer::Builder::build_from_writer`
    static BUILDER_WRITER: std::cell::Cell<bool> = const { std::cell::Cell::new(false) };
    /// called by the builder protocols after their last call, before the writer is dropped
    static BEFORE_DROP: std::cell::RefCell<Option<Box<dyn FnMut()>>> = const { std::cell::RefCell::new(None) };
}

pub fn set_builder_writer(on: bool) {
    BUILDER_WRITER.with(|f| f.set(on));
}

pub fn builder_writer_kind(kind: Kind) -> bool {
    matches!(kind, Kind::Sam | Kind::SamGz | Kind::Vcf | Kind::VcfGz)
}

pub fn set_before_drop(f: Option<Box<dyn FnMut()>>) {
    BEFORE_DROP.with(|c| *c.borrow_mut() = f);
}

pub fn call_before_drop() {
    BEFORE_DROP.with(|c| {
        if let Some(f) = c.borrow_mut().as_mut() {
            f();
        }
    });
}

pub fn set_facade_writer(on: bool) {
    FACADE_WRITER.with(|f| f.set(on));
}

pub fn facade_writer_kind(kind: Kind) -> bool {
    matches!(kind, Kind::Sam | Kind::SamGz | Kind::Bam | Kind::BamRaw)
}

/// Component name of the writer protocol in use for this kind.
pub fn writer_name(kind: Kind) -> String {
    if FACADE_WRITER.with(|f| f.get()) && facade_writer_kind(kind) {
        format!("{}:util-facade-writer", kind.name())
    } else if BUILDER_WRITER.with(|f| f.get()) && builder_writer_kind(kind) {
        format!("{}:builder-made-writer", kind.name())
    } else {
        format!("{}:writer", kind.name())
    }
}

pub fn write_to<W: Write>(kind: Kind, model: &Model, w: W) -> io::Result<()> {
    if FACADE_WRITER.with(|f| f.get()) {
        use noodles_util::alignment::io::Format;
        match (kind, model) {
            (Kind::Sam, Model::Align { parsed, .. }) => return align::write_util_alignment(w, parsed, Format::Sam, false),
            (Kind::SamGz, Model::Align { parsed, .. }) => return align::write_util_alignment(w, parsed, Format::Sam, true),
            (Kind::Bam, Model::Align { parsed, .. }) => return align::write_util_alignment(w, parsed, Format::Bam, true),
            (Kind::BamRaw, Model::Align { parsed, .. }) => return align::write_util_alignment(w, parsed, Format::Bam, false),
            _ => {}
        }
    }
    if BUILDER_WRITER.with(|f| f.get()) {
        match (kind, model) {
            (Kind::Sam, Model::Align { parsed, .. }) => return align::write_sam_builder(w, parsed, false),
            (Kind::SamGz, Model::Align { parsed, .. }) => return align::write_sam_builder(w, parsed, true),
            (Kind::Vcf, Model::Variant { parsed, .. }) => return variant::write_vcf_builder(w, parsed, false),
            (Kind::VcfGz, Model::Variant { parsed, .. }) => return variant::write_vcf_builder(w, parsed, true),
            _ => {}
        }
    }
    match (kind, model) {
        (Kind::Bgzf, Model::Bytes { payload, cuts }) => {
            // compression level from the model: default, 0 (stored blocks: the payload appears
            // verbatim in the file), 1, 9
            let level = [None, Some(0u8), Some(1), Some(9), None, Some(0)][(payload.len() + cuts.len()) % 6];
            let mut w = match level.and_then(noodles_bgzf::io::writer::CompressionLevel::new) {
                Some(l) => noodles_bgzf::io::writer::Builder::default().set_compression_level(l).build_from_writer(w),
                None => noodles_bgzf::io::Writer::new(w),
            };
            let mut prev = 0;
            for &c in cuts {
                w.write_all(&payload[prev..c])?;
                w.flush()?;
                prev = c;
            }
            w.write_all(&payload[prev..])?;
            w.finish().map(|_| ())
        }
        (Kind::Sam, Model::Align { parsed, .. }) => align::write_sam(w, parsed).map(|_| ()),
        (Kind::SamGz, Model::Align { parsed, .. }) => align::write_samgz(w, parsed).map(|_| ()),
        (Kind::Bam, Model::Align { parsed, .. }) => align::write_bam(w, parsed),
        (Kind::BamRaw, Model::Align { parsed, .. }) => align::write_bam_raw(w, parsed).map(|_| ()),
        (Kind::Vcf, Model::Variant { parsed, .. }) => variant::write_vcf(w, parsed).map(|_| ()),
        (Kind::VcfGz, Model::Variant { parsed, .. }) => variant::write_vcfgz(w, parsed).map(|_| ()),
        (Kind::Bcf, Model::Variant { parsed, .. }) => variant::write_bcf(w, parsed),
        (Kind::BcfRaw, Model::Variant { parsed, .. }) => variant::write_bcf_raw(w, parsed).map(|_| ()),
        (Kind::Fasta, Model::Fasta(m, width)) => text::write_fasta(w, m, *width),
        (Kind::Fastq, Model::Fastq(m)) => text::write_fastq(w, m),
        (Kind::Gff, Model::Lines(m)) => text::write_gff(w, m),
        (Kind::Gtf, Model::Lines(m)) => text::write_gtf(w, m),
        (Kind::Bed, Model::Lines(m)) => text::write_bed(w, m),
        (Kind::Bai, Model::Bai(i)) => index::write_bai(w, i),
        (Kind::Csi, Model::Csi(i)) => index::write_csi(w, i),
        (Kind::Tabix, Model::Tabix(i)) => index::write_tabix(w, i),
        (Kind::Gzi, Model::Gzi(i)) => index::write_gzi(w, i),
        (Kind::Fai, Model::Fai(i)) => index::write_fai(w, i),
        (Kind::Cram, Model::Cram { model, parsed, opts }) => cram::write_cram(w, parsed, &model.refs, opts),
        (Kind::Crai, Model::Crai(i)) => index::write_crai(w, i),
        _ => Err(other("harness: kind/model mismatch")),
    }
}

/// Does the delivered file come from the harness text (reader kinds fed hand-made text, incl.
/// CRLF and odd line widths) rather than from the noodles writer?
fn made_from_text(kind: Kind) -> bool {
    matches!(kind, Kind::Fasta | Kind::Fastq | Kind::Gff | Kind::Gtf | Kind::Bed | Kind::Vcf | Kind::Sam)
}

pub fn make(spec: &FileSpec) -> io::Result<Made> {
    // on a fresh thread: the bytes of a generated file must not depend on how many hash maps this
    // worker created before (see kernel::fresh_thread)
    // (only CRAM writing iterates hash maps)
    let made = crate::kernel::fresh_thread_if(matches!(spec.kind, Kind::Cram | Kind::Crai), || make_inner(spec))?;
    if let Model::Cram { model, .. } = &made.model {
        set_cram_refs(&model.refs);
    }
    if let Some(refs) = &made.cram_refs {
        set_cram_refs(refs);
    }
    Ok(made)
}

/// See `make_inner`.
fn reframe_bgzf(bytes: Vec<u8>, seed: u64) -> Vec<u8> {
    let Ok(w) = mbgzf::walk(&bytes) else { return bytes };
    let data = w.data;
    if data.is_empty() {
        return bytes;
    }
    let mut rng = Rng::new(seed ^ 0x7ef7a3e);
    let n_cuts = 1 + rng.usize_below(6);
    let mut cuts: Vec<usize> = (0..n_cuts)
        .map(|_| if rng.chance(1, 2) { rng.usize_below(data.len().min(400) + 1) } else { rng.usize_below(data.len() + 1) })
        .collect();
    cuts.push(data.len());
    cuts.sort();
    let mut file = Vec::new();
    let mut prev = 0;
    for c in cuts {
        // (equal cuts give an empty member in the middle of the file)
        for chunk in data[prev..c].chunks(60_000) {
            file.extend_from_slice(&mbgzf::rebuild_member(chunk));
        }
        if c == prev && rng.chance(1, 3) {
            file.extend_from_slice(&mbgzf::rebuild_member(&[]));
        }
        prev = c;
    }
    file.extend_from_slice(&mbgzf::EOF_MARKER);
    file
}

/// See `make_inner`: grows l_text by 2..=400 NUL bytes appended to the header text.
fn pad_bcf_header(kind: Kind, bytes: Vec<u8>, seed: u64) -> Vec<u8> {
    let raw: Vec<u8> = if kind == Kind::Bcf {
        match mbgzf::walk(&bytes) {
            Ok(w) => w.data,
            Err(_) => return bytes,
        }
    } else {
        bytes.clone()
    };
    if raw.len() < 9 || &raw[..3] != b"BCF" {
        return bytes;
    }
    let l_text = u32::from_le_bytes([raw[5], raw[6], raw[7], raw[8]]) as usize;
    if 9 + l_text > raw.len() {
        return bytes;
    }
    let pad = 2 + (seed / 4 % 399) as usize;
    let mut out = Vec::with_capacity(raw.len() + pad);
    out.extend_from_slice(&raw[..5]);
    out.extend_from_slice(&((l_text + pad) as u32).to_le_bytes());
    out.extend_from_slice(&raw[9..9 + l_text]);
    out.resize(out.len() + pad, 0);
    let split = out.len() - pad / 2;
    out.extend_from_slice(&raw[9 + l_text..]);
    if kind == Kind::BcfRaw {
        return out;
    }
    let mut file = Vec::new();
    let (head, tail) = out.split_at(split);
    for chunk in head.chunks(60_000).chain(tail.chunks(60_000)) {
        file.extend_from_slice(&mbgzf::rebuild_member(chunk));
    }
    file.extend_from_slice(&mbgzf::EOF_MARKER);
    file
}

fn make_inner(spec: &FileSpec) -> io::Result<Made> {
    let (model, companion) = model_with_companion(spec)?;
    let cram_refs = match spec.kind {
        Kind::Crai => Some(cram_refs().as_ref().clone()),
        _ => None,
    };
    let kind = spec.kind;
    let bytes: Vec<u8> = if made_from_text(kind) {
        match &model {
            Model::Fasta(m, _) => m.text.clone(),
            Model::Fastq(m) => m.text.clone(),
            Model::Lines(m) => m.text.clone(),
            // every third text file uses CRLF line terminators (decided by the spec's seed)
            Model::Variant { model, .. } => if spec.seed % 3 == 0 { model.text_crlf() } else { model.text() }.into_bytes(),
            Model::Align { model, .. } => if spec.seed % 3 == 0 { model.text_crlf() } else { model.text() }.into_bytes(),
            _ => unreachable!(),
        }
    } else {
        let mut v = Vec::new();
        write_to(kind, &model, &mut v)?;
        v
    };
    // BCF: a quarter of the files carry a header text padded with extra NULs (l_text counts them; valid,
    // other writers do it), and in the BGZF form a block boundary falls inside the padding
    let bytes = if matches!(kind, Kind::Bcf | Kind::BcfRaw) && spec.seed % 4 == 1 { pad_bcf_header(kind, bytes, spec.seed) } else { bytes };
    // BGZF containers other than the byte-stream kind: every fifth file is re-framed — the same
    // uncompressed stream cut into members at seeded offsets (blocks flushed early by another writer,
    // now and then an empty member): structures such as header name blocks, linear indexes and
    // records then straddle member boundaries that the noodles writer would only produce after 64 KiB
    let bytes = if kind.is_bgzf_container() && kind != Kind::Bgzf && spec.seed % 5 == 2 { reframe_bgzf(bytes, spec.seed) } else { bytes };
    let (boundaries, flat) = if kind.is_bgzf_container() {
        bgzf_boundaries(&bytes)
    } else {
        let b = match (&model, kind) {
            (_, Kind::BamRaw) => bam_raw_boundaries(&bytes),
            (_, Kind::BcfRaw) => bcf_raw_boundaries(&bytes),
            (Model::Fasta(m, _), _) => with_end(&m.starts, bytes.len()),
            (Model::Fastq(m), _) => with_end(&m.starts, bytes.len()),
            (Model::Lines(m), _) => with_end(&m.starts, bytes.len()),
            (_, Kind::Sam | Kind::Vcf | Kind::Fai) => line_boundaries(&bytes),
            (_, Kind::Cram) => cram::container_boundaries(&bytes).map_err(other)?,
            _ => vec![0, bytes.len()],
        };
        (b, None)
    };
    let expected: Vec<String> = match &model {
        Model::Bytes { .. } => Vec::new(),
        Model::Align { model, .. } => align::expected_items(model),
        Model::Variant { model, .. } => variant::expected_items(model),
        Model::Fasta(m, _) => text::fasta_expected(m),
        Model::Fastq(m) => text::fastq_expected(m),
        Model::Lines(m) => m.lines.iter().map(|l| format!("L|{l}")).collect(),
        Model::Bai(i) => vec![format!("X|{i:?}")],
        Model::Csi(i) => vec![format!("X|{i:?}")],
        Model::Tabix(i) => vec![format!("X|{i:?}")],
        Model::Gzi(i) => vec![format!("X|{i:?}")],
        Model::Fai(i) => i.as_ref().iter().map(|r| format!("R|{r:?}")).collect(),
        Model::Cram { model, opts, .. } => cram::canonical_expected(model, opts),
        Model::Crai(i) => i.iter().map(|r| format!("R|{r:?}")).collect(),
    };
    Ok(Made {
        spec: spec.clone(),
        model,
        bytes: Arc::new(bytes),
        expected,
        boundaries,
        flat,
        companion: companion.map(|(k, b)| (k, Arc::new(b))),
        cram_refs,
    })
}

thread_local! {
    /// Reference sequences of the CRAM model made last on this thread: the CRAM reader needs the
    /// reference repository, which is part of the workload, not of the file.
    static CRAM_REFS: std::cell::RefCell<Arc<Vec<(String, Vec<u8>)>>> = std::cell::RefCell::new(Arc::new(Vec::new()));
}

pub fn set_cram_refs(refs: &[(String, Vec<u8>)]) {
    CRAM_REFS.with(|r| *r.borrow_mut() = Arc::new(refs.to_vec()));
}

pub fn cram_refs() -> Arc<Vec<(String, Vec<u8>)>> {
    CRAM_REFS.with(|r| r.borrow().clone())
}

fn with_end(starts: &[usize], len: usize) -> Vec<usize> {
    let mut b = starts.to_vec();
    b.push(len);
    b
}

/// Record starts in an uncompressed BAM stream (harness parse of the documented layout).
pub fn bam_raw_boundaries(b: &[u8]) -> Vec<usize> {
    let mut out = vec![0usize];
    let rd = |p: usize| -> Option<usize> {
        b.get(p..p + 4)
            .map(|x| u32::from_le_bytes(x.try_into().unwrap()) as usize)
    };
    let mut p = 4;
    let Some(l_text) = rd(p) else { return out };
    p += 4 + l_text;
    let Some(n_ref) = rd(p) else { return out };
    p += 4;
    for _ in 0..n_ref {
        let Some(l_name) = rd(p) else { return out };
        p += 4 + l_name + 4;
    }
    out.push(p);
    while let Some(bs) = rd(p) {
        p += 4 + bs;
        if p > b.len() {
            break;
        }
        out.push(p);
    }
    out
}

/// Record starts in an uncompressed BCF stream: magic(5) l_text(4) text, then l_shared(4) l_indiv(4) ...
pub fn bcf_raw_boundaries(b: &[u8]) -> Vec<usize> {
    let mut out = vec![0usize];
    let rd = |p: usize| -> Option<usize> {
        b.get(p..p + 4)
            .map(|x| u32::from_le_bytes(x.try_into().unwrap()) as usize)
    };
    let mut p = 5;
    let Some(l_text) = rd(p) else { return out };
    p += 4 + l_text;
    out.push(p);
    while let (Some(ls), Some(li)) = (rd(p), rd(p + 4)) {
        p += 8 + ls + li;
        if p > b.len() {
            break;
        }
        out.push(p);
    }
    out
}

/// Reads a source of the given kind to the end with reading-protocol variant `variant`.
pub fn read(kind: Kind, variant: u8, src: Source) -> Obs {
    observe(|o| {
        let ObsBuf { items, bytes: out } = o;
        match kind {
            Kind::Bgzf => {
                let mut r = noodles_bgzf::io::Reader::new(src.into_read());
                match variant % 3 {
                    0 => {
                        r.read_to_end(out)?;
                    }
                    1 => {
                        let mut buf = [0u8; 777];
                        loop {
                            let n = match r.read(&mut buf) {
                                Ok(n) => n,
                                Err(e) if e.kind() == io::ErrorKind::Interrupted => continue,
                                Err(e) => return Err(e),
                            };
                            if n == 0 {
                                break;
                            }
                            out.extend_from_slice(&buf[..n]);
                        }
                    }
                    _ => loop {
                        let w = match r.fill_buf() {
                            Ok(w) => w,
                            Err(e) if e.kind() == io::ErrorKind::Interrupted => continue,
                            Err(e) => return Err(e),
                        };
                        if w.is_empty() {
                            break;
                        }
                        let n = w.len();
                        out.extend_from_slice(w);
                        r.consume(n);
                    },
                }
                items.push(format!("P|{}", u64::from(r.virtual_position())));
                Ok(())
            }
            _ if is_util_variant(kind, variant) => match kind {
                Kind::Vcf | Kind::VcfGz | Kind::Bcf => variant::read_util_variant(src, items),
                Kind::Cram => align::read_util_alignment(src, Some(cram::repository(&cram_refs())), items),
                _ => align::read_util_alignment(src, None, items),
            },
            Kind::Sam => align::read_sam(src, mode(variant), items),
            Kind::SamGz => align::read_samgz(src, mode(variant), items),
            Kind::Bam => match variant % 4 {
                2 => align::read_bam_positions(src, items),
                v => align::read_bam(src, mode(v), items),
            },
            Kind::BamRaw => align::read_bam_raw(src, mode(variant), items),
            Kind::Vcf => variant::read_vcf(src, mode(variant), items),
            Kind::VcfGz => variant::read_vcfgz(src, mode(variant), items),
            Kind::Bcf => variant::read_bcf(src, mode(variant), items),
            Kind::BcfRaw => variant::read_bcf_raw(src, mode(variant), items),
            Kind::Fasta => text::read_fasta(src, variant, items),
            Kind::Fastq => text::read_fastq(src, variant, items),
            Kind::Gff => text::read_gff(src, variant, items),
            Kind::Gtf => text::read_gtf(src, variant, items),
            Kind::Bed => text::read_bed(src, variant, items),
            Kind::Bai => index::read_bai(src.into_read(), items),
            Kind::Csi => index::read_csi(src.into_read(), items),
            Kind::Tabix => index::read_tabix(src.into_read(), items),
            Kind::Gzi => index::read_gzi(src.into_read(), items),
            Kind::Fai => index::read_fai(src.into_buf(), items),
            Kind::Cram => cram::read_cram(src, &cram_refs(), mode(variant), items),
            Kind::Crai => index::read_crai(src.into_read(), items),
        }
    })
}

/// Is this reading variant the noodles-util facade reader (sync only)?
pub fn is_util_variant(kind: Kind, variant: u8) -> bool {
    match kind {
        Kind::Bam => variant % 4 == 3,
        Kind::Sam | Kind::SamGz | Kind::Vcf | Kind::VcfGz | Kind::Bcf | Kind::Cram => variant % 3 == 2,
        _ => false,
    }
}

fn mode(variant: u8) -> align::Mode {
    if variant % 2 == 0 {
        align::Mode::Lazy
    } else {
        align::Mode::Buf
    }
}

/// Does `Made.expected` describe what this variant yields (else the domain self-test only checks
/// for End::Eof)?
pub fn has_model(kind: Kind, variant: u8) -> bool {
    match kind {
        Kind::Fasta | Kind::Fastq | Kind::Gff | Kind::Gtf => variant == 0,
        Kind::Bed => false,
        _ => true,
    }
}

/// The content part of an observation (positions and other variant-specific items removed).
pub fn content_items(items: &[String]) -> Vec<String> {
    items
        .iter()
        .filter(|s| s.starts_with("H|") || s.starts_with("R|") || s.starts_with("L|") || s.starts_with("X|"))
        .cloned()
        .collect()
}
