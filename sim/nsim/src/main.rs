#![feature(alloc_error_hook)]
//! nsim — deterministic simulation with fault injection for zaeleus/noodles.
//!
//!   nsim check <ID> [--tier quick|thorough] [--seed N] [--workers N] [--limit N] [--no-minimise] [--no-evidence]
//!   nsim worker <ID> --tier T --seed N --slice i/n --from k --skip-subs m [--limit N]     (internal)
//!   nsim exec <ID> <plan.json>                                                          (internal)
//!   nsim replay <replay.json>
//!   nsim plan <ID> --seed N --index I [--tier T]        print the plan of one case
//!   nsim selftest determinism <ID> [--cases N]
//!   nsim selftest async [--cases N] [--seed N] [--kind K] [--max-print M]

mod aexec;
mod checks;
mod fmt;
mod genr;
mod kernel;
mod model;
mod seams;

use std::path::PathBuf;

use kernel::{Check, RunCtx, Stats, Tier, orchestrator, worker};

#[global_allocator]
static ALLOC: kernel::alloc::Gate = kernel::alloc::Gate;

/// Seam for the one source of randomness inside std that the code under test consumes: the keys
/// of `std::collections::hash_map::RandomState` (noodles-cram iterates HashMaps while writing, so
/// the bytes of a CRAM file depend on them). std resolves `getrandom` through a weak symbol
/// precisely so that it can be interposed "to disable randomness for consistency"; this definition
/// makes every thread's first RandomState start from the same keys. Together with running each
/// file generation / writer run on a fresh thread (`kernel::fresh_thread`) the hash iteration
/// order becomes a pure function of the plan.
#[unsafe(no_mangle)]
pub unsafe extern "C" fn getrandom(buf: *mut u8, len: usize, _flags: u32) -> isize {
    for i in 0..len {
        // SAFETY: the caller passes a buffer of `len` bytes
        unsafe { *buf.add(i) = (i as u8).wrapping_mul(31).wrapping_add(7) };
    }
    len as isize
}

fn lookup(id: &str) -> Option<&'static dyn Check> {
    checks::ALL.iter().copied().find(|c| c.id() == id)
}

fn arg_val<'a>(args: &'a [String], name: &str) -> Option<&'a str> {
    args.iter()
        .position(|a| a == name)
        .and_then(|i| args.get(i + 1))
        .map(|s| s.as_str())
}

fn verif_dir() -> PathBuf {
    std::env::var_os("NSIM_VERIF_DIR")
        .map(PathBuf::from)
        .unwrap_or_else(|| PathBuf::from("/verif"))
}

fn env_seed() -> u64 {
    std::env::var("VERIF_SEED")
        .ok()
        .and_then(|s| s.trim().parse::<u64>().ok())
        .unwrap_or(1)
}

fn main() {
    // glibc malloc tuning (speed only, no influence on any result): the CRAM codecs allocate and
    // free multi-megabyte zeroed tables per block; served by mmap/munmap, every run pays for fresh
    // page faults (minutes of system time per case inside this VM).  Keep such blocks on the heap
    // of a single arena and never give memory back.
    // SAFETY: mallopt is called before any other thread exists
    unsafe {
        libc::mallopt(libc::M_ARENA_MAX, 1);
        libc::mallopt(libc::M_MMAP_THRESHOLD, 32 << 20);
        libc::mallopt(libc::M_TRIM_THRESHOLD, 1 << 30);
        libc::mallopt(libc::M_TOP_PAD, 64 << 20);
    }
    let args: Vec<String> = std::env::args().skip(1).collect();
    let code = real_main(&args);
    std::process::exit(code);
}

fn real_main(args: &[String]) -> i32 {
    let Some(cmd) = args.first() else {
        eprintln!("usage: nsim check|worker|exec|replay|plan|selftest ...");
        return 2;
    };
    match cmd.as_str() {
        "check" => {
            let Some(check) = args.get(1).and_then(|id| lookup(id)) else {
                eprintln!("nsim: unknown check id");
                return 2;
            };
            let tier = arg_val(args, "--tier")
                .map(|s| s.to_string())
                .or_else(|| std::env::var("VERIF_TIER").ok())
                .and_then(|s| Tier::parse(&s))
                .unwrap_or(Tier::Quick);
            let seed = arg_val(args, "--seed")
                .and_then(|s| s.parse().ok())
                .unwrap_or_else(env_seed);
            let workers = arg_val(args, "--workers")
                .and_then(|s| s.parse().ok())
                .unwrap_or_else(|| {
                    std::thread::available_parallelism()
                        .map(|n| n.get())
                        .unwrap_or(4)
                        .min(16)
                });
            let opts = orchestrator::Options {
                tier,
                seed,
                workers,
                limit: arg_val(args, "--limit").and_then(|s| s.parse().ok()),
                verif_dir: verif_dir(),
                minimise: !args.iter().any(|a| a == "--no-minimise"),
                write_evidence: !args.iter().any(|a| a == "--no-evidence"),
            };
            orchestrator::run_check(check, &opts)
        }
        "worker" => {
            let Some(check) = args.get(1).and_then(|id| lookup(id)) else {
                return 2;
            };
            let tier = arg_val(args, "--tier").and_then(Tier::parse).unwrap_or(Tier::Quick);
            let seed = arg_val(args, "--seed").and_then(|s| s.parse().ok()).unwrap_or(1);
            let slice = arg_val(args, "--slice").unwrap_or("0/1");
            let (i, n) = slice.split_once('/').unwrap_or(("0", "1"));
            let slice = worker::Slice {
                index: i.parse().unwrap_or(0),
                count: n.parse().unwrap_or(1),
                from: arg_val(args, "--from").and_then(|s| s.parse().ok()).unwrap_or(0),
                skip_subs: arg_val(args, "--skip-subs").and_then(|s| s.parse().ok()).unwrap_or(0),
            };
            let limit = arg_val(args, "--limit").and_then(|s| s.parse().ok());
            worker::run_worker(check, tier, seed, slice, limit);
            0
        }
        "exec" => {
            let Some(check) = args.get(1).and_then(|id| lookup(id)) else {
                return 2;
            };
            let Some(path) = args.get(2) else { return 2 };
            let plan: serde_json::Value = match std::fs::read(path)
                .map_err(|e| e.to_string())
                .and_then(|b| serde_json::from_slice(&b).map_err(|e| e.to_string()))
            {
                Ok(p) => p,
                Err(e) => {
                    eprintln!("nsim: cannot load plan: {e}");
                    return 2;
                }
            };
            worker::install_panic_hook();
            if check.arm_allocator() {
                kernel::alloc::arm(true);
            }
            let mut stats = Stats::default();
            let findings = {
                let mut ctx = RunCtx::new(&mut stats);
                ctx.announce = check.announce();
                match kernel::catch(|| check.execute(&plan, &mut ctx)) {
                    Ok(f) => f,
                    Err(p) => {
                        eprintln!("nsim: harness panic at {}: {}", p.location, p.message);
                        return 2;
                    }
                }
            };
            for f in findings {
                worker::raw_line(&format!(
                    "V {}",
                    serde_json::json!({"idx": 0, "violation": f.violation, "plan": f.plan})
                ));
            }
            worker::raw_line(&format!("D {}", serde_json::to_string(&stats).unwrap()));
            0
        }
        "replay" => {
            let Some(path) = args.get(1) else {
                eprintln!("usage: nsim replay <file>");
                return 2;
            };
            orchestrator::replay(&lookup, &PathBuf::from(path))
        }
        "dump" => {
            // development aid: nsim dump '<FileSpec json>' <out-prefix> writes the generated file
            // (and the data file an index belongs to) for inspection with other tools
            let (Some(spec), Some(prefix)) = (args.get(1), args.get(2)) else {
                eprintln!("usage: nsim dump '<FileSpec json>' <out-prefix>");
                return 2;
            };
            let spec: fmt::kinds::FileSpec = match serde_json::from_str(spec) {
                Ok(s) => s,
                Err(e) => {
                    eprintln!("nsim: bad FileSpec: {e}");
                    return 2;
                }
            };
            match fmt::kinds::make(&spec) {
                Ok(m) => {
                    let _ = std::fs::write(format!("{prefix}.{}", spec.kind.name()), &m.bytes[..]);
                    if let Some((k, d)) = &m.companion {
                        let _ = std::fs::write(format!("{prefix}.companion.{}", k.name()), &d[..]);
                    }
                    println!("{} bytes, {} boundaries", m.bytes.len(), m.boundaries.len());
                    0
                }
                Err(e) => {
                    eprintln!("nsim: cannot build: {e}");
                    2
                }
            }
        }
        "plan" => {
            let Some(check) = args.get(1).and_then(|id| lookup(id)) else {
                return 2;
            };
            let tier = arg_val(args, "--tier").and_then(Tier::parse).unwrap_or(Tier::Quick);
            let seed = arg_val(args, "--seed").and_then(|s| s.parse().ok()).unwrap_or_else(env_seed);
            let idx = arg_val(args, "--index").and_then(|s| s.parse().ok()).unwrap_or(0);
            println!("{}", serde_json::to_string_pretty(&check.plan(seed, idx, tier)).unwrap());
            0
        }
        "selftest" => {
            let sub = args.get(1).map(|s| s.as_str()).unwrap_or("");
            match sub {
                "determinism" => {
                    let Some(check) = args.get(2).and_then(|id| lookup(id)) else {
                        eprintln!("usage: nsim selftest determinism <ID> [--cases N] [--seed N]");
                        return 2;
                    };
                    let cases = arg_val(args, "--cases").and_then(|s| s.parse().ok()).unwrap_or(200);
                    let seed = arg_val(args, "--seed").and_then(|s| s.parse().ok()).unwrap_or_else(env_seed);
                    checks::selftest_determinism(check, seed, cases)
                }
                "domain" => {
                    let cases = arg_val(args, "--cases").and_then(|s| s.parse().ok()).unwrap_or(200);
                    let seed = arg_val(args, "--seed").and_then(|s| s.parse().ok()).unwrap_or_else(env_seed);
                    checks::selftest_domain(seed, cases, arg_val(args, "--kind"))
                }
                "async" => {
                    let cases = arg_val(args, "--cases").and_then(|s| s.parse().ok()).unwrap_or(5);
                    let seed = arg_val(args, "--seed").and_then(|s| s.parse().ok()).unwrap_or_else(env_seed);
                    let max_print = arg_val(args, "--max-print").and_then(|s| s.parse().ok()).unwrap_or(10);
                    worker::install_panic_hook();
                    checks::selftest_async(seed, cases, arg_val(args, "--kind"), max_print)
                }
                _ => {
                    eprintln!("usage: nsim selftest determinism <ID> | domain | async [--cases N] [--seed N] [--kind K] [--max-print M]");
                    2
                }
            }
        }
        _ => {
            eprintln!("nsim: unknown command {cmd}");
            2
        }
    }
}
