//! SPIKE: deterministic scheduler for real OS threads. Exactly one registered thread runs at a
//! time (it "holds the baton"); every blocking operation of the shims is a scheduling point at
//! which a seeded chooser picks the next runnable thread.

use std::{
    cell::RefCell,
    collections::{HashMap, VecDeque},
    panic::{self, AssertUnwindSafe},
    sync::{Arc, Condvar, Mutex},
    thread::ThreadId,
};

pub type Cond = Box<dyn Fn(&Inner) -> bool + Send>;
type Task = Box<dyn FnOnce() + Send>;

#[derive(Clone, Copy, PartialEq, Eq, Debug)]
enum Status {
    Running,
    Waiting,
    Finished,
}

struct Th {
    status: Status,
    cond: Option<Cond>,
    label: &'static str,
}

pub enum Chooser {
    Random(u64),
    Replay(Vec<u32>, usize),
}

impl Chooser {
    fn pick(&mut self, n: usize) -> usize {
        match self {
            Chooser::Random(s) => {
                *s = s.wrapping_add(0x9e3779b97f4a7c15);
                let mut z = *s;
                z = (z ^ (z >> 30)).wrapping_mul(0xbf58476d1ce4e5b9);
                z = (z ^ (z >> 27)).wrapping_mul(0x94d049bb133111eb);
                z ^= z >> 31;
                (z % n as u64) as usize
            }
            Chooser::Replay(v, i) => {
                let c = v.get(*i).copied().unwrap_or(0) as usize;
                *i += 1;
                c.min(n - 1)
            }
        }
    }
}

pub struct Inner {
    threads: Vec<Th>,
    current: usize,
    chooser: Chooser,
    /// (step, index chosen among enabled, number enabled, tid chosen, label)
    pub trace: Vec<(u64, u32, u32, u32, &'static str)>,
    by_os_id: HashMap<ThreadId, usize>,
    pool_size: usize,
    pool_queue: VecDeque<(u64, Task)>,
    pool_workers: usize,
    pool_shutdown: bool,
    next_task: u64,
    pub task_order: Vec<u64>,
    steps: u64,
}

pub struct Sim {
    inner: Mutex<Inner>,
    cv: Condvar,
}

#[derive(Clone)]
pub struct Ctx {
    sim: Arc<Sim>,
    tid: usize,
}

thread_local! {
    static CTX: RefCell<Option<Ctx>> = const { RefCell::new(None) };
}

pub fn ctx() -> Option<Ctx> {
    CTX.with(|c| c.borrow().clone())
}

impl Sim {
    fn schedule(&self, g: &mut Inner) {
        g.steps += 1;
        let mut enabled = Vec::new();
        for i in 0..g.threads.len() {
            if g.threads[i].status == Status::Waiting {
                let c = g.threads[i].cond.take().expect("waiting thread without cond");
                let ok = c(g);
                g.threads[i].cond = Some(c);
                if ok {
                    enabled.push(i);
                }
            }
        }
        if enabled.is_empty() {
            if g.threads.iter().all(|t| t.status == Status::Finished) {
                g.current = usize::MAX;
                return;
            }
            let states: Vec<_> = g
                .threads
                .iter()
                .enumerate()
                .map(|(i, t)| format!("t{i}:{:?}@{}", t.status, t.label))
                .collect();
            eprintln!("SIM DEADLOCK at step {}: {}", g.steps, states.join(" "));
            std::process::exit(3);
        }
        let k = if enabled.len() == 1 { 0 } else { g.chooser.pick(enabled.len()) };
        let tid = enabled[k];
        if enabled.len() > 1 {
            let label = g.threads[tid].label;
            g.trace
                .push((g.steps, k as u32, enabled.len() as u32, tid as u32, label));
        }
        g.threads[tid].status = Status::Running;
        g.threads[tid].cond = None;
        g.current = tid;
    }
}

impl Ctx {
    /// Scheduling point: the calling thread gives up the baton and resumes once `cond` holds
    /// and the chooser picks it.
    pub fn block_until(&self, label: &'static str, cond: impl Fn(&Inner) -> bool + Send + 'static) {
        let sim = &self.sim;
        let mut g = sim.inner.lock().unwrap();
        debug_assert_eq!(g.current, self.tid);
        let th = &mut g.threads[self.tid];
        th.status = Status::Waiting;
        th.cond = Some(Box::new(cond));
        th.label = label;
        sim.schedule(&mut g);
        sim.cv.notify_all();
        while !(g.current == self.tid && g.threads[self.tid].status == Status::Running) {
            g = sim.cv.wait(g).unwrap();
        }
    }
}

pub fn yield_now(label: &'static str) {
    if let Some(ctx) = ctx() {
        ctx.block_until(label, |_| true);
    }
}

pub fn before_join<T>(handle: &std::thread::JoinHandle<T>) {
    if let Some(ctx) = ctx() {
        let os_id = handle.thread().id();
        let tid = *ctx
            .sim
            .inner
            .lock()
            .unwrap()
            .by_os_id
            .get(&os_id)
            .expect("join of a thread unknown to the simulator");
        ctx.block_until("join", move |g| g.threads[tid].status == Status::Finished);
    }
}

pub mod thread {
    pub use std::thread::JoinHandle;

    use super::*;

    pub fn spawn<F, T>(f: F) -> JoinHandle<T>
    where
        F: FnOnce() -> T + Send + 'static,
        T: Send + 'static,
    {
        let Some(ctx) = ctx() else {
            return std::thread::spawn(f);
        };
        let sim = ctx.sim.clone();
        let tid = {
            let mut g = sim.inner.lock().unwrap();
            g.threads.push(Th {
                status: Status::Waiting,
                cond: Some(Box::new(|_| true)),
                label: "start",
            });
            g.threads.len() - 1
        };
        let child_sim = sim.clone();
        let h = std::thread::spawn(move || {
            let sim = child_sim;
            CTX.with(|c| *c.borrow_mut() = Some(Ctx { sim: sim.clone(), tid }));
            {
                let mut g = sim.inner.lock().unwrap();
                while !(g.current == tid && g.threads[tid].status == Status::Running) {
                    g = sim.cv.wait(g).unwrap();
                }
            }
            let r = panic::catch_unwind(AssertUnwindSafe(f));
            {
                let mut g = sim.inner.lock().unwrap();
                g.threads[tid].status = Status::Finished;
                g.threads[tid].label = "finished";
                sim.schedule(&mut g);
                sim.cv.notify_all();
            }
            CTX.with(|c| *c.borrow_mut() = None);
            match r {
                Ok(v) => v,
                Err(p) => panic::resume_unwind(p),
            }
        });
        sim.inner.lock().unwrap().by_os_id.insert(h.thread().id(), tid);
        ctx.block_until("spawn", |_| true);
        h
    }
}

/// Rayon shim entry points.
pub fn pool_size() -> Option<usize> {
    ctx().map(|c| c.sim.inner.lock().unwrap().pool_size)
}

pub fn pool_spawn(f: Task) -> Result<(), Task> {
    let Some(ctx) = ctx() else { return Err(f) };
    let to_spawn = {
        let mut g = ctx.sim.inner.lock().unwrap();
        let id = g.next_task;
        g.next_task += 1;
        g.pool_queue.push_back((id, f));
        let n = g.pool_size - g.pool_workers;
        g.pool_workers = g.pool_size;
        n
    };
    for _ in 0..to_spawn {
        thread::spawn(worker_loop);
    }
    Ok(())
}

fn worker_loop() {
    let ctx = ctx().unwrap();
    loop {
        ctx.block_until("pool-idle", |g| !g.pool_queue.is_empty() || g.pool_shutdown);
        let task = {
            let mut g = ctx.sim.inner.lock().unwrap();
            if g.pool_queue.is_empty() {
                None
            } else {
                let n = g.pool_queue.len();
                let k = if n == 1 { 0 } else { g.chooser.pick(n) };
                let t = g.pool_queue.remove(k);
                if let Some((id, _)) = &t {
                    let id = *id;
                    g.task_order.push(id);
                }
                t
            }
        };
        match task {
            Some((_, f)) => {
                let _ = panic::catch_unwind(AssertUnwindSafe(f));
            }
            None => break,
        }
    }
}

pub struct Outcome<R> {
    pub result: std::thread::Result<R>,
    pub trace: Vec<(u64, u32, u32, u32, &'static str)>,
    pub task_order: Vec<u64>,
    pub steps: u64,
}

/// Runs `scenario` on the calling thread as simulated thread 0.
pub fn run<R>(chooser: Chooser, pool_size: usize, scenario: impl FnOnce() -> R) -> Outcome<R> {
    let sim = Arc::new(Sim {
        inner: Mutex::new(Inner {
            threads: vec![Th {
                status: Status::Running,
                cond: None,
                label: "main",
            }],
            current: 0,
            chooser,
            trace: Vec::new(),
            by_os_id: HashMap::new(),
            pool_size,
            pool_queue: VecDeque::new(),
            pool_workers: 0,
            pool_shutdown: false,
            next_task: 0,
            task_order: Vec::new(),
            steps: 0,
        }),
        cv: Condvar::new(),
    });
    let ctx = Ctx { sim: sim.clone(), tid: 0 };
    CTX.with(|c| *c.borrow_mut() = Some(ctx.clone()));
    let result = panic::catch_unwind(AssertUnwindSafe(scenario));
    sim.inner.lock().unwrap().pool_shutdown = true;
    ctx.block_until("drain", |g| {
        g.threads.iter().skip(1).all(|t| t.status == Status::Finished)
    });
    CTX.with(|c| *c.borrow_mut() = None);
    let mut g = sim.inner.lock().unwrap();
    Outcome {
        result,
        trace: std::mem::take(&mut g.trace),
        task_order: std::mem::take(&mut g.task_order),
        steps: g.steps,
    }
}
