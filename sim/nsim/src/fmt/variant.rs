//! Variant formats: VCF, VCF.gz, BCF, raw (uncompressed) BCF stream.

use std::io::{self, BufRead, Read, Write};

use noodles_bcf as bcf;
use noodles_bgzf as bgzf;
use noodles_vcf::{
    self as vcf,
    variant::{RecordBuf, io::Write as _},
};

use super::{Source, align::Mode};
use crate::genr::vcf::VcfModel;

pub struct Parsed {
    pub header: vcf::Header,
    pub records: Vec<RecordBuf>,
}

pub fn parse_model(m: &VcfModel) -> io::Result<Parsed> {
    let text = m.text();
    let mut r = vcf::io::Reader::new(text.as_bytes());
    let header = r.read_header()?;
    let records = r.record_bufs(&header).collect::<io::Result<Vec<_>>>()?;
    Ok(Parsed { header, records })
}

pub fn render_header(header: &vcf::Header) -> io::Result<String> {
    let mut w = vcf::io::Writer::new(Vec::new());
    w.write_header(header)?;
    Ok(String::from_utf8_lossy(w.get_ref()).into_owned())
}

pub fn render_record(header: &vcf::Header, rec: &dyn vcf::variant::Record) -> io::Result<String> {
    let mut w = vcf::io::Writer::new(Vec::new());
    w.write_variant_record(header, rec)?;
    // the derived accessors the text writer does not use (span and end position, as the indexers
    // and region queries do); their results are not part of the rendering, only must not panic
    let _ = rec.variant_span(header);
    let _ = rec.variant_end(header);
    let mut v = w.into_inner();
    if v.last() == Some(&b'\n') {
        v.pop();
    }
    Ok(String::from_utf8_lossy(&v).into_owned())
}

pub fn expected_items(m: &VcfModel) -> Vec<String> {
    let mut v = Vec::with_capacity(m.records.len() + 1);
    v.push(format!("H|{}", m.header));
    for r in &m.records {
        v.push(format!("R|{}", crate::genr::vcf::canonical_line(r)));
    }
    v
}

// ---------------------------------------------------------------- writers

pub fn write_vcf<W: Write>(w: W, p: &Parsed) -> io::Result<W> {
    let mut w = vcf::io::Writer::new(w);
    w.write_header(&p.header)?;
    for r in &p.records {
        w.write_variant_record(&p.header, r)?;
    }
    Ok(w.into_inner())
}

pub fn write_vcfgz<W: Write>(w: W, p: &Parsed) -> io::Result<W> {
    let mut w = vcf::io::Writer::new(bgzf::io::Writer::new(w));
    w.write_header(&p.header)?;
    for r in &p.records {
        w.write_variant_record(&p.header, r)?;
    }
    w.into_inner().finish()
}

pub fn write_bcf<W: Write>(w: W, p: &Parsed) -> io::Result<()> {
    let mut w = bcf::io::Writer::new(w);
    w.write_header(&p.header)?;
    for r in &p.records {
        w.write_variant_record(&p.header, r)?;
    }
    w.try_finish()
}

pub fn write_bcf_raw<W: Write>(w: W, p: &Parsed) -> io::Result<W> {
    let mut w = bcf::io::Writer::from(w);
    w.write_header(&p.header)?;
    for r in &p.records {
        w.write_variant_record(&p.header, r)?;
    }
    Ok(w.into_inner())
}

// ---------------------------------------------------------------- readers

pub fn read_vcf_from<R: BufRead>(src: R, mode: Mode, items: &mut Vec<String>) -> io::Result<()> {
    let mut r = vcf::io::Reader::new(src);
    let header = r.read_header()?;
    items.push(format!("H|{}", render_header(&header)?));
    match mode {
        Mode::Lazy => {
            for rec in r.records() {
                let rec = rec?;
                items.push(format!("R|{}", render_record(&header, &rec)?));
            }
        }
        Mode::Buf => {
            for rec in r.record_bufs(&header) {
                let rec = rec?;
                items.push(format!("R|{}", render_record(&header, &rec)?));
            }
        }
    }
    Ok(())
}

pub fn read_vcf(src: Source, mode: Mode, items: &mut Vec<String>) -> io::Result<()> {
    read_vcf_from(src.into_buf(), mode, items)
}

pub fn read_vcfgz(src: Source, mode: Mode, items: &mut Vec<String>) -> io::Result<()> {
    read_vcf_from(bgzf::io::Reader::new(src.into_read()), mode, items)
}

pub fn read_bcf_from<R: Read>(mut r: bcf::io::Reader<R>, mode: Mode, items: &mut Vec<String>) -> io::Result<()> {
    let header = r.read_header()?;
    items.push(format!("H|{}", render_header(&header)?));
    match mode {
        Mode::Lazy => {
            for rec in r.records() {
                let rec = rec?;
                items.push(format!("R|{}", render_record(&header, &rec)?));
            }
        }
        Mode::Buf => {
            for rec in r.record_bufs(&header) {
                let rec = rec?;
                items.push(format!("R|{}", render_record(&header, &rec)?));
            }
        }
    }
    Ok(())
}

pub fn read_bcf(src: Source, mode: Mode, items: &mut Vec<String>) -> io::Result<()> {
    read_bcf_from(bcf::io::Reader::new(src.into_read()), mode, items)
}

pub fn read_bcf_raw(src: Source, mode: Mode, items: &mut Vec<String>) -> io::Result<()> {
    read_bcf_from(bcf::io::Reader::from(src.into_read()), mode, items)
}

/// The format-detecting facade (`noodles_util::variant::io::Reader`).
pub fn read_util_variant(src: Source, items: &mut Vec<String>) -> io::Result<()> {
    let mut r = noodles_util::variant::io::reader::Builder::default().build_from_reader(src.into_read())?;
    let header = r.read_header()?;
    items.push(format!("H|{}", render_header(&header)?));
    for rec in r.records(&header) {
        let rec = rec?;
        items.push(format!("R|{}", render_record(&header, rec.as_ref())?));
    }
    Ok(())
}

/// `vcf::io::writer::Builder::build_from_writer` (see `align::write_sam_builder`).
pub fn write_vcf_builder<W: Write>(w: W, p: &Parsed, bgzf: bool) -> io::Result<()> {
    use noodles_vcf::io::{CompressionMethod, writer::Builder};
    let mut w = Builder::default()
        .set_compression_method(if bgzf { CompressionMethod::Bgzf } else { CompressionMethod::None })
        .build_from_writer(w);
    w.write_header(&p.header)?;
    for r in &p.records {
        w.write_variant_record(&p.header, r)?;
    }
    w.get_mut().flush()?;
    super::kinds::call_before_drop();
    Ok(())
}
