//! Format layer: for every reader/writer kind, the careful-user protocol the harness follows
//! (DESIGN.md §12): how a model is written, how a source is read into an observation.

pub mod aio;
pub mod align;
pub mod cram;
pub mod index;
pub mod kinds;
pub mod query;
pub mod text;
pub mod variant;

use std::io::{self, BufRead, BufReader, Read, Seek};
use std::sync::Arc;

use serde::{Deserialize, Serialize};

use crate::kernel::{catch, PanicInfo};
use crate::seams::read::{ReadPlan, SimBufRead, SimRead};

pub trait RS: Read + Seek + Send {}
impl<T: Read + Seek + Send> RS for T {}
pub trait BRS: RS + BufRead {}
impl<T: RS + BufRead> BRS for T {}

/// A byte source as handed to a reader under test.
pub enum Source {
    Raw(Box<dyn RS>),
    Buf(Box<dyn BRS>),
}

impl Source {
    pub fn plain(data: Arc<Vec<u8>>) -> Source {
        Source::Buf(Box::new(io::Cursor::new(ArcBytes(data))))
    }
    pub fn into_buf(self) -> Box<dyn BRS> {
        match self {
            Source::Raw(r) => Box::new(BufReader::new(r)),
            Source::Buf(b) => b,
        }
    }
    pub fn into_read(self) -> Box<dyn RS> {
        match self {
            Source::Raw(r) => r,
            Source::Buf(b) => b,
        }
    }
}

pub struct ArcBytes(pub Arc<Vec<u8>>);
impl AsRef<[u8]> for ArcBytes {
    fn as_ref(&self) -> &[u8] {
        &self.0
    }
}

/// How the simulated source is wrapped before the reader under test sees it.
#[derive(Clone, Debug, Serialize, Deserialize, PartialEq)]
pub enum Wrap {
    /// the reader talks to the SimRead directly (text readers get a default BufReader on top)
    Direct,
    /// std::io::BufReader::with_capacity(cap, SimRead)
    StdBuf { cap: usize },
    /// SimBufRead: windows themselves short, Interrupted from fill_buf
    SimBuf { cap: usize },
}

#[derive(Clone, Debug, Serialize, Deserialize, PartialEq)]
pub struct Delivery {
    pub read: ReadPlan,
    pub wrap: Wrap,
}

impl Delivery {
    pub fn plain() -> Self {
        Delivery {
            read: ReadPlan::plain(),
            wrap: Wrap::Direct,
        }
    }
    pub fn open(&self, data: Arc<Vec<u8>>) -> (Source, crate::seams::read::SharedCounters) {
        let mut sim = SimRead::new(data, self.read.clone());
        let counters = sim.shared_counters();
        let src = match self.wrap {
            Wrap::Direct => Source::Raw(Box::new(sim)),
            Wrap::StdBuf { cap } => Source::Buf(Box::new(BufReader::with_capacity(cap.max(1), sim))),
            Wrap::SimBuf { cap } => Source::Buf(Box::new(SimBufRead::new(sim, cap))),
        };
        (src, counters)
    }
}

#[derive(Clone, Debug, PartialEq, Eq)]
pub enum End {
    Eof,
    Err { kind: String, msg: String },
    Panic { witness: String, msg: String },
}

/// What a reader produced: the sequence of results until EOF, error or panic.
#[derive(Clone, Debug, PartialEq, Eq)]
pub struct Obs {
    pub items: Vec<String>,
    /// raw bytes delivered (byte-stream kinds: BGZF)
    pub bytes: Vec<u8>,
    pub end: End,
}

#[derive(Default)]
pub struct ObsBuf {
    pub items: Vec<String>,
    pub bytes: Vec<u8>,
}

impl Obs {
    pub fn summary(&self) -> String {
        format!("{} items then {:?}", self.items.len(), self.end)
    }
}

/// Runs a reading protocol with panic containment.
pub fn observe(f: impl FnOnce(&mut ObsBuf) -> io::Result<()>) -> Obs {
    let mut buf = ObsBuf::default();
    let r = catch(|| f(&mut buf));
    let end = match r {
        Ok(Ok(())) => End::Eof,
        Ok(Err(e)) => End::Err {
            kind: format!("{:?}", e.kind()),
            msg: e.to_string(),
        },
        Err(PanicInfo { location, message }) => End::Panic {
            witness: PanicInfo {
                location: location.clone(),
                message: String::new(),
            }
            .witness(),
            msg: format!("{location}: {message}"),
        },
    };
    Obs {
        items: buf.items,
        bytes: buf.bytes,
        end,
    }
}

/// First index at which two item sequences differ (or the shorter length).
pub fn first_diff(a: &[String], b: &[String]) -> Option<usize> {
    let n = a.len().min(b.len());
    (0..n).find(|&i| a[i] != b[i]).or((a.len() != b.len()).then_some(n))
}

pub fn clip(s: &str) -> String {
    if s.len() > 160 {
        let mut e = 160;
        while !s.is_char_boundary(e) {
            e -= 1;
        }
        format!("{}…[{} bytes]", &s[..e], s.len())
    } else {
        s.to_string()
    }
}
