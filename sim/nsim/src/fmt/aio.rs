//! Async twins of the reading / writing / query protocols of fmt::kinds and fmt::query (C16).
//! Each function must produce exactly the observation items of its sync counterpart.

use std::io;
use std::num::NonZero;
use std::sync::Arc;

use futures::TryStreamExt;
use noodles_bam as bam;
use noodles_bgzf as bgzf;

use super::{
    End, Obs, align,
    kinds::{Kind, Model},
};
use crate::kernel::PanicInfo;
use crate::seams::aio::{SimAsyncRead, SimAsyncWrite};

/// kinds that have at least one async reader or writer twin
pub const ASYNC_KINDS: &[Kind] = &[Kind::Bam];

/// index kinds whose companion data file has an async query twin
pub const QUERY_INDEX_KINDS: &[Kind] = &[Kind::Bai];

pub fn has_async_reader(kind: Kind, _variant: u8) -> bool {
    matches!(kind, Kind::Bam)
}

pub fn has_async_writer(_kind: Kind) -> bool {
    false
}

pub fn has_async_query(_index_kind: Kind, _data_kind: Kind) -> bool {
    false
}

/// formats whose bytes pass through a compressor other than BGZF (byte identity not demanded)
pub fn compressed_kind(kind: Kind) -> bool {
    matches!(kind, Kind::Cram | Kind::Crai)
}

fn bgzf_reader(src: SimAsyncRead, workers: usize) -> bgzf::r#async::io::Reader<SimAsyncRead> {
    bgzf::r#async::io::reader::Builder::default()
        .set_worker_count(NonZero::new(workers.max(1)).unwrap())
        .build_from_reader(src)
}

/// Async counterpart of `fmt::observe`: panics are contained by the caller (aexec::run).
async fn observe_async<F>(f: impl FnOnce(Arc<std::sync::Mutex<Vec<String>>>, Arc<std::sync::Mutex<Vec<u8>>>) -> F) -> Obs
where
    F: Future<Output = io::Result<()>>,
{
    let items = Arc::new(std::sync::Mutex::new(Vec::new()));
    let bytes = Arc::new(std::sync::Mutex::new(Vec::new()));
    let r = f(items.clone(), bytes.clone()).await;
    let end = match r {
        Ok(()) => End::Eof,
        Err(e) => End::Err {
            kind: format!("{:?}", e.kind()),
            msg: e.to_string(),
        },
    };
    let items = std::mem::take(&mut *items.lock().unwrap());
    let bytes = std::mem::take(&mut *bytes.lock().unwrap());
    Obs { items, bytes, end }
}

#[allow(dead_code)]
fn _unused(_: PanicInfo) {}

/// Reads a source of the given kind to the end with the async reader twin of reading-protocol
/// variant `variant`; same items as `kinds::read(kind, variant, ..)`.
pub async fn aread(kind: Kind, variant: u8, src: SimAsyncRead, workers: usize) -> Obs {
    observe_async(|items, _bytes| async move {
        let push = |s: String| items.lock().unwrap().push(s);
        match kind {
            Kind::Bam => {
                let mut r = bam::r#async::io::Reader::from(bgzf_reader(src, workers));
                let header = r.read_header().await?;
                push(format!("H|{}", align::render_header(&header)?));
                match variant % 3 {
                    0 => {
                        let mut s = r.records();
                        while let Some(rec) = s.try_next().await? {
                            push(format!("R|{}", align::render_record(&header, &rec)?));
                        }
                    }
                    1 => {
                        let mut s = r.record_bufs(&header);
                        while let Some(rec) = s.try_next().await? {
                            push(format!("R|{}", align::render_record(&header, &rec)?));
                        }
                    }
                    _ => {
                        push(format!("P|{}", u64::from(r.get_ref().virtual_position())));
                        let mut rec = bam::Record::default();
                        loop {
                            if r.read_record(&mut rec).await? == 0 {
                                break;
                            }
                            push(format!("R|{}", align::render_record(&header, &rec)?));
                            push(format!("P|{}", u64::from(r.get_ref().virtual_position())));
                        }
                    }
                }
                Ok(())
            }
            _ => Err(io::Error::other("harness: no async reader twin for this kind")),
        }
    })
    .await
}

/// Writes the model with the async writer twin following the same careful-user protocol as
/// `kinds::write_to` (header, records, shutdown).
pub async fn awrite(kind: Kind, _model: &Model, _sink: SimAsyncWrite, _workers: usize) -> io::Result<()> {
    let _ = kind;
    Err(io::Error::other("harness: no async writer twin for this kind"))
}

/// Async counterpart of `fmt::query::query`: loads the index from `index_bytes` with the *async*
/// index reader and runs the same region / unmapped queries with the async data reader.
pub async fn aquery(_index_kind: Kind, _index_bytes: Arc<Vec<u8>>, _data_kind: Kind, _src: SimAsyncRead, _workers: usize) -> Obs {
    Obs {
        items: Vec::new(),
        bytes: Vec::new(),
        end: End::Err {
            kind: "Other".into(),
            msg: "harness: no async query twin".into(),
        },
    }
}
