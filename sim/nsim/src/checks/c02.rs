//! C02 — BGZF virtual positions name bytes: reader operation histories against a flat-array model.
//!
//! The history engine (`run_reader_history`) is shared with C03 (MultithreadedReader) and mirrored
//! for the async reader in C16.

use std::io::{self, BufRead, Read, Seek, SeekFrom};
use std::sync::Arc;

use noodles_bgzf::{self as bgzf, VirtualPosition, gzi};
use serde::{Deserialize, Serialize};
use serde_json::{Value, json};

use super::c01::{self, plan_hash};
use crate::{
    genr::bytes::{CLASSES, Class, Payload},
    kernel::{Check, Finding, Rng, RunCtx, Stats, Tier, Violation, catch, prng},
    model::bgzf::{EOF_MARKER, Enc, Flat, build_member, walk},
    seams::read::{Chunking, Eintr, ReadPlan, SimRead},
    seams::write::WritePlan,
};

pub struct C02;

#[derive(Clone, Debug, Serialize, Deserialize, PartialEq)]
pub struct BlockSpec {
    pub len: usize,
    pub class: Class,
    pub seed: u64,
    pub enc: Enc,
}

#[derive(Clone, Debug, Serialize, Deserialize, PartialEq)]
pub enum Layout {
    /// members built by the harness' own block builder (layouts the noodles writer never emits)
    Built { blocks: Vec<BlockSpec>, eof_markers: u8 },
    /// the output of a C01 writer history (its sampled virtual positions are checked too)
    Writer {
        level: Option<u8>,
        payload: Payload,
        ops: Vec<c01::Op>,
        end: c01::End,
    },
}

#[derive(Clone, Debug, Serialize, Deserialize, PartialEq)]
pub enum ROp {
    Read { n: usize },
    ReadExact { n: usize },
    FillBuf,
    /// consume min(n, length of the window the preceding fill_buf showed)
    Consume { n: usize },
    /// seek to spelling number `which` (mod count) of flat offset `off` (mod len+1)
    Seek { off: u64, which: u8 },
    /// seek to the k-th (mod count) virtual position reported earlier in this run
    SeekReported { k: usize },
    /// seek by uncompressed offset `off` (mod len+1) through the gzi index
    SeekU { off: u64 },
}

#[derive(Clone, Debug, Serialize, Deserialize)]
pub struct Plan {
    pub kind: String,
    pub layout: Layout,
    pub ops: Vec<ROp>,
    pub source: ReadPlan,
    /// pass the gzi index through noodles' gzi writer -> reader first
    pub gzi_via_io: bool,
}

pub struct BuiltFile {
    pub file: Vec<u8>,
    pub flat: Flat,
    /// (virtual position, flat offset) sampled from the writer
    pub tells: Vec<(u64, u64)>,
}

pub fn build_layout(layout: &Layout) -> Result<BuiltFile, String> {
    match layout {
        Layout::Built { blocks, eof_markers } => {
            let mut file = Vec::new();
            for b in blocks {
                let data = Payload {
                    class: b.class,
                    len: b.len,
                    seed: b.seed,
                }
                .bytes();
                let m = build_member(&data, b.enc)
                    .or_else(|| build_member(&data, Enc::Deflate(6)))
                    .or_else(|| {
                        // incompressible and too large for one member: shorten
                        build_member(&data[..data.len().min(65000)], Enc::Stored)
                    })
                    .ok_or("block does not fit")?;
                file.extend_from_slice(&m);
            }
            for _ in 0..*eof_markers {
                file.extend_from_slice(&EOF_MARKER);
            }
            let w = walk(&file)?;
            let n = file.len();
            Ok(BuiltFile {
                file,
                flat: Flat::from_walk(w, n),
                tells: Vec::new(),
            })
        }
        Layout::Writer {
            level,
            payload,
            ops,
            end,
        } => {
            let data = payload.bytes();
            let r = c01::run_history(*level, &data, ops, *end, WritePlan::plain())
                .map_err(|(c, m)| format!("{c}: {m}"))?;
            let w = walk(&r.sink)?;
            let n = r.sink.len();
            Ok(BuiltFile {
                file: r.sink,
                flat: Flat::from_walk(w, n),
                tells: r.tells,
            })
        }
    }
}

/// What the history engine needs from a BGZF reader under test.
pub trait BgzfUnderTest {
    fn name(&self) -> &'static str;
    fn read(&mut self, buf: &mut [u8]) -> io::Result<usize>;
    fn read_exact(&mut self, buf: &mut [u8]) -> io::Result<()>;
    fn fill_buf(&mut self) -> io::Result<&[u8]>;
    fn consume(&mut self, n: usize);
    fn vpos(&self) -> u64;
    fn seek_v(&mut self, vp: VirtualPosition) -> io::Result<VirtualPosition>;
    fn seek_u(&mut self, index: &gzi::Index, off: u64) -> io::Result<u64>;
}

impl<R: Read + Seek> BgzfUnderTest for bgzf::io::Reader<R> {
    fn name(&self) -> &'static str {
        "bgzf::io::Reader"
    }
    fn read(&mut self, buf: &mut [u8]) -> io::Result<usize> {
        Read::read(self, buf)
    }
    fn read_exact(&mut self, buf: &mut [u8]) -> io::Result<()> {
        Read::read_exact(self, buf)
    }
    fn fill_buf(&mut self) -> io::Result<&[u8]> {
        BufRead::fill_buf(self)
    }
    fn consume(&mut self, n: usize) {
        BufRead::consume(self, n)
    }
    fn vpos(&self) -> u64 {
        u64::from(self.virtual_position())
    }
    fn seek_v(&mut self, vp: VirtualPosition) -> io::Result<VirtualPosition> {
        self.seek(vp)
    }
    fn seek_u(&mut self, index: &gzi::Index, off: u64) -> io::Result<u64> {
        self.seek_by_uncompressed_position(index, off)
    }
}

/// IndexedReader: seeks by virtual position go through `get_mut()` are not offered; only the
/// std `Seek` by uncompressed offset. `seek_v` is emulated by seeking to what the position denotes.
pub struct Indexed<R>(pub bgzf::io::IndexedReader<R>, pub Flat);

impl<R: Read + Seek> BgzfUnderTest for Indexed<R> {
    fn name(&self) -> &'static str {
        "bgzf::io::IndexedReader"
    }
    fn read(&mut self, buf: &mut [u8]) -> io::Result<usize> {
        Read::read(&mut self.0, buf)
    }
    fn read_exact(&mut self, buf: &mut [u8]) -> io::Result<()> {
        Read::read_exact(&mut self.0, buf)
    }
    fn fill_buf(&mut self) -> io::Result<&[u8]> {
        BufRead::fill_buf(&mut self.0)
    }
    fn consume(&mut self, n: usize) {
        BufRead::consume(&mut self.0, n)
    }
    fn vpos(&self) -> u64 {
        u64::from(self.0.virtual_position())
    }
    fn seek_v(&mut self, vp: VirtualPosition) -> io::Result<VirtualPosition> {
        let mut off = self
            .1
            .denote(vp.compressed(), vp.uncompressed())
            .expect("harness: seek target denotes an offset");
        if off == self.1.len() && self.1.members.last().is_some_and(|m| m.ulen > u16::MAX as u64) {
            // not spellable through gzi (see SeekU); go there by reading the last byte
            off -= 1;
            Seek::seek(&mut self.0, SeekFrom::Start(off))?;
            let mut b = [0u8; 1];
            Read::read_exact(&mut self.0, &mut b)?;
            return Ok(vp);
        }
        Seek::seek(&mut self.0, SeekFrom::Start(off))?;
        Ok(vp)
    }
    fn seek_u(&mut self, _index: &gzi::Index, off: u64) -> io::Result<u64> {
        Seek::seek(&mut self.0, SeekFrom::Start(off))
    }
}

#[derive(Default, Debug)]
pub struct HistoryStats {
    pub ops_done: u64,
    pub seeks: u64,
    pub seek_to_end_from_nonempty_block: u64,
    pub seek_into_empty_block: u64,
    pub direct_read_after_seek: u64,
    pub direct_reads: u64,
    pub read_exact_fast: u64,
    pub read_exact_slow: u64,
    pub read_exact_past_end: u64,
    pub seeks_to_reported: u64,
    pub seeks_u: u64,
    /// async reader only: seeks issued through poll_seek
    pub poll_seeks: u64,
    pub bytes_checked: u64,
    /// highest flat offset up to which data was delivered (exclusive)
    pub max_offset_read: u64,
}

pub type HResult = Result<HistoryStats, (String, String, String)>; // (class, witness, message)

fn fail(class: &str, witness: &str, msg: String) -> (String, String, String) {
    (class.to_string(), witness.to_string(), msg)
}

/// Runs a reader history against the flat model. `reported` seeds the list of positions that
/// `SeekReported` may pick from (writer tells).
pub fn run_reader_history(
    r: &mut dyn BgzfUnderTest,
    flat: &Flat,
    index: &gzi::Index,
    ops: &[ROp],
    reported: Vec<u64>,
) -> HResult {
    run_reader_history_with(r, flat, index, ops, reported, None)
}

/// `forbidden`: flat range [lo, hi) whose bytes must never be delivered (a corrupt or unreadable
/// block; C03 fault scenarios).
pub fn run_reader_history_with(
    r: &mut dyn BgzfUnderTest,
    flat: &Flat,
    index: &gzi::Index,
    ops: &[ROp],
    mut reported: Vec<u64>,
    forbidden: Option<(u64, u64)>,
) -> HResult {
    let check_forbidden = |lo: u64, hi: u64, i: usize, what: &str| -> Result<(), (String, String, String)> {
        if let Some((flo, fhi)) = forbidden {
            if lo < fhi && flo < hi && hi > lo {
                return Err(fail(
                    "fabricated-data",
                    "corrupt-block-delivered",
                    format!("op {i}: {what} delivered flat range [{lo}, {hi}) which overlaps the corrupt/unreadable range [{flo}, {fhi})"),
                ));
            }
        }
        Ok(())
    };
    let mut st = HistoryStats::default();
    let data = &flat.data;
    let len = flat.len();
    let mut cur: u64 = 0;
    let mut known = true;
    let mut window: Option<usize> = None;
    let mut last_vp: Option<u64> = None; // for monotonicity between seeks
    let mut just_sought = false;
    let mut buf = Vec::new();

    // initial position must denote 0
    check_pos(r, flat, cur, &mut last_vp, "initial")?;
    reported.push(r.vpos());

    for (i, op) in ops.iter().enumerate() {
        if !known && !matches!(op, ROp::Seek { .. } | ROp::SeekU { .. } | ROp::SeekReported { .. }) {
            continue;
        }
        let mut win_next = None;
        match op {
            ROp::Read { n } => {
                buf.clear();
                buf.resize(*n, 0xAA);
                let direct = *n >= 65536;
                let k = r
                    .read(&mut buf)
                    .map_err(|e| fail("unexpected-error", "read", format!("op {i} read({n}) at offset {cur}: {e}")))?;
                if k > *n {
                    return Err(fail("read-overrun", "read", format!("op {i}: read({n}) returned {k}")));
                }
                if k == 0 && *n > 0 && cur < len {
                    return Err(fail(
                        "premature-eof",
                        "read",
                        format!("op {i}: read({n}) returned 0 at offset {cur} of {len}"),
                    ));
                }
                check_forbidden(cur, cur + k as u64, i, "read")?;
                cmp_bytes(&buf[..k], data, cur, i, "read")?;
                cur += k as u64;
                st.bytes_checked += k as u64;
                st.max_offset_read = st.max_offset_read.max(cur);
                if direct {
                    st.direct_reads += 1;
                    if just_sought {
                        st.direct_read_after_seek += 1;
                    }
                }
            }
            ROp::ReadExact { n } => {
                buf.clear();
                buf.resize(*n, 0xAA);
                let fits = cur + *n as u64 <= len;
                match r.read_exact(&mut buf) {
                    Ok(()) => {
                        if !fits {
                            return Err(fail(
                                "fabricated-data",
                                "read_exact-past-end",
                                format!("op {i}: read_exact({n}) succeeded at offset {cur} of {len}"),
                            ));
                        }
                        check_forbidden(cur, cur + *n as u64, i, "read_exact")?;
                        cmp_bytes(&buf, data, cur, i, "read_exact")?;
                        cur += *n as u64;
                        st.bytes_checked += *n as u64;
                        st.max_offset_read = st.max_offset_read.max(cur);
                        st.read_exact_fast += 1;
                    }
                    Err(e) => {
                        if fits {
                            return Err(fail(
                                "unexpected-error",
                                "read_exact",
                                format!("op {i}: read_exact({n}) at offset {cur} of {len}: {e}"),
                            ));
                        }
                        if e.kind() != io::ErrorKind::UnexpectedEof {
                            return Err(fail(
                                "wrong-error",
                                "read_exact-past-end",
                                format!("op {i}: read_exact({n}) past the end returned {:?}: {e}", e.kind()),
                            ));
                        }
                        // how much was consumed is unspecified: re-synchronise at the next seek
                        known = false;
                        st.read_exact_past_end += 1;
                    }
                }
            }
            ROp::FillBuf => {
                let w = r
                    .fill_buf()
                    .map_err(|e| fail("unexpected-error", "fill_buf", format!("op {i} fill_buf at offset {cur}: {e}")))?;
                let wl = w.len();
                if wl == 0 && cur < len {
                    return Err(fail(
                        "premature-eof",
                        "fill_buf",
                        format!("op {i}: fill_buf returned an empty window at offset {cur} of {len}"),
                    ));
                }
                if cur + wl as u64 > len {
                    return Err(fail(
                        "fabricated-data",
                        "fill_buf",
                        format!("op {i}: fill_buf window of {wl} bytes at offset {cur} exceeds the stream length {len}"),
                    ));
                }
                let w = w.to_vec();
                check_forbidden(cur, cur + wl as u64, i, "fill_buf")?;
                cmp_bytes(&w, data, cur, i, "fill_buf")?;
                st.bytes_checked += wl as u64;
                st.max_offset_read = st.max_offset_read.max(cur + wl as u64);
                win_next = Some(wl);
            }
            ROp::Consume { n } => {
                let Some(wl) = window else { continue };
                let amt = (*n).min(wl);
                r.consume(amt);
                cur += amt as u64;
            }
            ROp::Seek { .. } | ROp::SeekReported { .. } => {
                let (target_vp, target_off) = match op {
                    ROp::Seek { off, which } => {
                        let off = if *off == u64::MAX { len } else { off % (len + 1) };
                        let sp = flat.spellings(off);
                        let (c, u) = sp[*which as usize % sp.len()];
                        ((c << 16) | u as u64, off)
                    }
                    ROp::SeekReported { k } => {
                        let vp = reported[*k % reported.len()];
                        let off = flat
                            .denote(vp >> 16, (vp & 0xffff) as u16)
                            .ok_or_else(|| fail("harness", "reported-position-undenotable", format!("op {i}: {vp}")))?;
                        st.seeks_to_reported += 1;
                        (vp, off)
                    }
                    _ => unreachable!(),
                };
                let vp = VirtualPosition::from(target_vp);
                // probes
                let before = r.vpos();
                if target_vp >> 16 == flat.file_len && before != 0 {
                    st.seek_to_end_from_nonempty_block += 1;
                }
                if flat
                    .members
                    .iter()
                    .any(|m| m.cpos == target_vp >> 16 && m.ulen == 0)
                {
                    st.seek_into_empty_block += 1;
                }
                let got = r.seek_v(vp).map_err(|e| {
                    fail(
                        "unexpected-error",
                        "seek",
                        format!("op {i}: seek({}, {}) [flat offset {target_off}]: {e}", target_vp >> 16, target_vp & 0xffff),
                    )
                })?;
                if u64::from(got) != target_vp {
                    return Err(fail(
                        "seek-result",
                        "seek",
                        format!("op {i}: seek({target_vp}) returned {}", u64::from(got)),
                    ));
                }
                cur = target_off;
                known = true;
                last_vp = None;
                st.seeks += 1;
            }
            ROp::SeekU { off } => {
                let mut off = off % (len + 1);
                // a gzi index spells an offset as (start of the last member beginning at or before
                // it, remainder); the end of a stream whose final member holds 65536 bytes has no
                // such spelling (the remainder does not fit 16 bits), so it is not a seek target
                if off == len && flat.members.last().is_some_and(|m| m.ulen > u16::MAX as u64) {
                    off = len - 1;
                }
                let got = r.seek_u(index, off).map_err(|e| {
                    fail("unexpected-error", "seek-by-uncompressed", format!("op {i}: seek_by_uncompressed_position({off}): {e}"))
                })?;
                if got != off {
                    return Err(fail(
                        "seek-result",
                        "seek-by-uncompressed",
                        format!("op {i}: seek_by_uncompressed_position({off}) returned {got}"),
                    ));
                }
                cur = off;
                known = true;
                last_vp = None;
                st.seeks += 1;
                st.seeks_u += 1;
            }
        }
        just_sought = matches!(op, ROp::Seek { .. } | ROp::SeekU { .. } | ROp::SeekReported { .. });
        window = win_next;
        if known {
            let what = match op {
                ROp::Read { .. } => "read",
                ROp::ReadExact { .. } => "read_exact",
                ROp::FillBuf => "fill_buf",
                ROp::Consume { .. } => "consume",
                ROp::Seek { .. } | ROp::SeekReported { .. } => "seek",
                ROp::SeekU { .. } => "seek-by-uncompressed",
            };
            check_pos(r, flat, cur, &mut last_vp, what).map_err(|(c, w, m)| (c, w, format!("op {i} ({op:?}): {m}")))?;
            reported.push(r.vpos());
        }
        st.ops_done += 1;
    }
    Ok(st)
}

fn check_pos(
    r: &dyn BgzfUnderTest,
    flat: &Flat,
    cur: u64,
    last_vp: &mut Option<u64>,
    after: &str,
) -> Result<(), (String, String, String)> {
    let vp = r.vpos();
    let d = flat.denote(vp >> 16, (vp & 0xffff) as u16);
    if d != Some(cur) {
        return Err(fail(
            "position-mismatch",
            &format!("after-{after}"),
            format!(
                "virtual_position() = ({}, {}) denotes {d:?}, model cursor is {cur}",
                vp >> 16,
                vp & 0xffff
            ),
        ));
    }
    if let Some(prev) = *last_vp {
        if vp < prev {
            return Err(fail(
                "position-decreased",
                &format!("after-{after}"),
                format!("virtual position went from {prev} to {vp} without a seek"),
            ));
        }
    }
    *last_vp = Some(vp);
    Ok(())
}

fn cmp_bytes(got: &[u8], data: &[u8], cur: u64, i: usize, what: &str) -> Result<(), (String, String, String)> {
    let c = cur as usize;
    if c + got.len() > data.len() {
        return Err(fail(
            "fabricated-data",
            what,
            format!("op {i}: {what} returned {} bytes at offset {cur}, stream has {}", got.len(), data.len()),
        ));
    }
    if got != &data[c..c + got.len()] {
        let at = got.iter().zip(&data[c..]).position(|(a, b)| a != b).unwrap();
        return Err(fail(
            "wrong-bytes",
            what,
            format!(
                "op {i}: {what} at offset {cur}: byte {at} is {:#04x}, model has {:#04x}",
                got[at],
                data[c + at]
            ),
        ));
    }
    Ok(())
}

pub fn make_index(flat: &Flat, via_io: bool) -> Result<gzi::Index, String> {
    let idx = gzi::Index::from(flat.gzi_entries());
    if !via_io {
        return Ok(idx);
    }
    let mut buf = Vec::new();
    gzi::io::Writer::new(&mut buf)
        .write_index(&idx)
        .map_err(|e| format!("gzi write: {e}"))?;
    gzi::io::Reader::new(&buf[..])
        .read_index()
        .map_err(|e| format!("gzi read: {e}"))
}

pub fn gen_read_size(rng: &mut Rng) -> usize {
    match rng.below(12) {
        0 => 0,
        1 | 2 => 1,
        3..=5 => rng.usize_below(100),
        6 | 7 => rng.usize_below(70_000),
        8 | 9 => 65_536 + rng.usize_below(10),
        10 => 65_536 * 2 + rng.usize_below(100_000),
        _ => rng.usize_below(5_000),
    }
}

pub fn gen_reader_ops(rng: &mut Rng, max_ops: usize, allow_v: bool) -> Vec<ROp> {
    let n = 1 + rng.usize_below(max_ops);
    let seeky = rng.below(3);
    let mut ops = Vec::with_capacity(n);
    while ops.len() < n {
        let r = rng.below(100);
        let seek_p = match seeky {
            0 => 10,
            1 => 30,
            _ => 55,
        };
        if r < seek_p {
            match rng.below(if allow_v { 10 } else { 3 }) {
                0..=2 => ops.push(ROp::SeekU { off: rng.next_u64() >> 8 }),
                3..=4 => ops.push(ROp::SeekReported { k: rng.usize_below(1 << 20) }),
                5 => ops.push(ROp::Seek { off: u64::MAX, which: rng.below(4) as u8 }), // u64::MAX = end of stream
                _ => ops.push(ROp::Seek {
                    off: rng.next_u64() >> 8,
                    which: rng.below(4) as u8,
                }),
            }
        } else if r < seek_p + 20 {
            ops.push(ROp::Read { n: gen_read_size(rng) });
        } else if r < seek_p + 32 {
            ops.push(ROp::ReadExact { n: gen_read_size(rng) });
        } else {
            ops.push(ROp::FillBuf);
            if rng.chance(5, 6) {
                let n = match rng.below(4) {
                    0 => 0,
                    1 => 1 + rng.usize_below(20),
                    2 => rng.usize_below(70_000),
                    _ => usize::MAX >> 1,
                };
                ops.push(ROp::Consume { n });
            }
        }
    }
    ops
}

pub fn gen_built_layout(rng: &mut Rng, max_blocks: usize) -> Layout {
    let n = match rng.below(8) {
        0 => 0,
        1 => 1,
        _ => 1 + rng.usize_below(max_blocks),
    };
    let big_ok = rng.chance(1, 3);
    let mut blocks = Vec::with_capacity(n);
    for _ in 0..n {
        let class = *rng.pick(&CLASSES);
        let len = match rng.below(10) {
            0 | 1 => 0,
            2 => 1,
            3 | 4 => 1 + rng.usize_below(50),
            5 | 6 => 1 + rng.usize_below(3000),
            7 if big_ok => 65536,
            8 if big_ok => 60_000 + rng.usize_below(5536),
            _ => 1 + rng.usize_below(400),
        };
        let (class, len) = if len > 65_000 && matches!(class, Class::Random | Class::Mixed) {
            (Class::Text, len)
        } else {
            (class, len)
        };
        let enc = match rng.below(4) {
            0 if len <= 65_000 => Enc::Stored,
            1 => Enc::Deflate(1),
            2 => Enc::Deflate(9),
            _ => Enc::Deflate(6),
        };
        blocks.push(BlockSpec {
            len,
            class,
            seed: rng.next_u64(),
            enc,
        });
    }
    let eof_markers = match rng.below(6) {
        0 => 0,
        1 => 2,
        _ => 1,
    };
    Layout::Built { blocks, eof_markers }
}

pub fn gen_source(rng: &mut Rng) -> ReadPlan {
    let chunking = match rng.below(8) {
        0 => Chunking::One,
        1 => Chunking::Random {
            max: 1 + rng.usize_below(40),
            seed: rng.next_u64(),
        },
        2 => Chunking::Random {
            max: 1 + rng.usize_below(70_000),
            seed: rng.next_u64(),
        },
        3 => Chunking::Sparse {
            seed: rng.next_u64(),
            one_in: 1 + rng.below(5),
        },
        _ => Chunking::Full,
    };
    ReadPlan {
        chunking,
        eintr: Eintr::None,
        cut: None,
        ioerr_at: None,
    }
}

impl C02 {
    fn run(&self, plan: &Plan, stats: &mut Stats) -> Option<Violation> {
        let built = match build_layout(&plan.layout) {
            Ok(b) => b,
            Err(_) => {
                // the workload itself cannot be produced (a writer-side break, judged by C01/C14)
                stats.probe("workload_unbuildable", 1);
                return None;
            }
        };
        let index = match make_index(&built.flat, plan.gzi_via_io) {
            Ok(i) => i,
            Err(e) => return Some(Violation::new("gzi::io", "unexpected-error", "gzi-roundtrip", e)),
        };
        let file = Arc::new(built.file);
        let component = if plan.kind == "bgzf-indexed-reader" {
            "bgzf::io::IndexedReader"
        } else {
            "bgzf::io::Reader"
        };
        let mk = |c: &str, w: &str, m: String| Violation::new(component, c, w, m);

        // every writer-sampled position, sought in a fresh reader, yields the recorded byte
        for (vp, off) in &built.tells {
            let res = catch(|| {
                let mut r = bgzf::io::Reader::new(SimRead::new(file.clone(), ReadPlan::plain()));
                r.seek(VirtualPosition::from(*vp))?;
                let mut b = [0u8; 1];
                let n = Read::read(&mut r, &mut b)?;
                Ok::<_, io::Error>((n, b[0]))
            });
            match res {
                Ok(Ok((n, b))) => {
                    let want = built.flat.data.get(*off as usize).copied();
                    let got = (n == 1).then_some(b);
                    if got != want {
                        return Some(mk(
                            "writer-position",
                            "seek-to-writer-tell",
                            format!("writer position ({}, {}) was sampled before flat offset {off} (byte {want:?}); a fresh reader sought there read {got:?}", vp >> 16, vp & 0xffff),
                        ));
                    }
                }
                Ok(Err(e)) => return Some(mk("unexpected-error", "seek-to-writer-tell", format!("seek to writer position {vp}: {e}"))),
                Err(p) => return Some(mk("panic", &p.witness(), format!("panic at {}: {}", p.location, p.message))),
            }
        }
        stats.probe("writer_tells_sought", built.tells.len() as u64);

        let src = SimRead::new(file.clone(), plan.source.clone());
        let reported: Vec<u64> = built.tells.iter().map(|t| t.0).collect();
        let res = catch(|| {
            if plan.kind == "bgzf-indexed-reader" {
                let mut r = Indexed(bgzf::io::IndexedReader::new(src, index.clone()), built.flat.clone());
                run_reader_history(&mut r, &built.flat, &index, &plan.ops, reported)
            } else {
                let mut r = bgzf::io::Reader::new(src);
                run_reader_history(&mut r, &built.flat, &index, &plan.ops, reported)
            }
        });
        stats.evaluations += 1;
        stats.steps += plan.ops.len() as u64;
        match res {
            Ok(Ok(st)) => {
                record_history_stats(stats, &st);
                stats.kind(component);
                if st.seeks > 0 && built.flat.members.len() >= 2 {
                    stats.nontrivial(plan_hash(plan));
                }
                if stats.want_sample() && st.seeks > 1 && built.flat.members.len() > 2 {
                    stats.sample(|| json!({"plan": plan, "members": built.flat.members.iter().map(|m| (m.cpos, m.csize, m.ulen)).collect::<Vec<_>>() }));
                }
                None
            }
            Ok(Err((c, w, m))) => Some(mk(&c, &w, m)),
            Err(p) => Some(mk("panic", &p.witness(), format!("panic at {}: {}", p.location, p.message))),
        }
    }
}

pub fn record_history_stats(stats: &mut Stats, st: &HistoryStats) {
    stats.probe("seek_to_end_of_stream_from_nonempty_block", st.seek_to_end_from_nonempty_block);
    stats.probe("seek_into_empty_block", st.seek_into_empty_block);
    stats.probe("direct_read_path_after_seek", st.direct_read_after_seek);
    stats.probe("direct_read_path", st.direct_reads);
    stats.probe("read_exact_ok", st.read_exact_fast);
    stats.probe("read_exact_past_end", st.read_exact_past_end);
    stats.probe("seek_to_reported_position", st.seeks_to_reported);
    stats.probe("seek_by_uncompressed_offset", st.seeks_u);
    if st.poll_seeks > 0 {
        stats.probe("async_poll_seek", st.poll_seeks);
    }
    stats.probe("bytes_checked", st.bytes_checked);
    stats.probe("reader_ops", st.ops_done);
}

pub fn shrink_ops(ops: &[ROp]) -> Vec<Vec<ROp>> {
    let mut out = Vec::new();
    if ops.len() > 1 {
        let h = ops.len() / 2;
        out.push(ops[..h].to_vec());
        out.push(ops[h..].to_vec());
    }
    for i in 0..ops.len() {
        let mut q = ops.to_vec();
        q.remove(i);
        out.push(q);
    }
    for i in 0..ops.len() {
        match &ops[i] {
            ROp::Read { n } | ROp::ReadExact { n } if *n > 1 => {
                for new in [1usize, n / 2] {
                    let mut q = ops.to_vec();
                    q[i] = match &ops[i] {
                        ROp::Read { .. } => ROp::Read { n: new },
                        _ => ROp::ReadExact { n: new },
                    };
                    out.push(q);
                }
            }
            _ => {}
        }
    }
    out
}

impl Check for C02 {
    fn id(&self) -> &'static str {
        "C02"
    }
    fn level(&self) -> &'static str {
        "exploration"
    }
    fn n_cases(&self, tier: Tier) -> u64 {
        match tier {
            Tier::Quick => 100_000,
            Tier::Thorough => 3_000_000,
        }
    }
    fn plan(&self, master: u64, idx: u64, _tier: Tier) -> Value {
        let mut rng = Rng::new(prng::derive(master, "C02", idx));
        let indexed = rng.chance(1, 5);
        let layout = if rng.chance(1, 4) {
            let ops = c01::gen_history(&mut rng, 12, 150_000);
            Layout::Writer {
                level: Some(rng.below(10) as u8),
                payload: Payload {
                    class: *rng.pick(&CLASSES),
                    len: c01::total_len(&ops),
                    seed: rng.next_u64(),
                },
                ops,
                end: c01::End::Finish,
            }
        } else {
            gen_built_layout(&mut rng, 12)
        };
        let allow_v = !indexed || rng.bool();
        let plan = Plan {
            kind: if indexed { "bgzf-indexed-reader" } else { "bgzf-reader" }.into(),
            layout,
            ops: gen_reader_ops(&mut rng, 60, allow_v),
            source: gen_source(&mut rng),
            gzi_via_io: rng.bool(),
        };
        serde_json::to_value(plan).unwrap()
    }
    fn execute(&self, plan: &Value, ctx: &mut RunCtx) -> Vec<Finding> {
        let p: Plan = serde_json::from_value(plan.clone()).expect("bad C02 plan");
        match self.run(&p, ctx.stats) {
            Some(v) => vec![Finding {
                violation: v,
                plan: plan.clone(),
            }],
            None => Vec::new(),
        }
    }
    fn shrink(&self, plan: &Value) -> Vec<Value> {
        let Ok(p) = serde_json::from_value::<Plan>(plan.clone()) else {
            return Vec::new();
        };
        let mut out = Vec::new();
        for ops in shrink_ops(&p.ops) {
            let mut q = p.clone();
            q.ops = ops;
            out.push(serde_json::to_value(q).unwrap());
        }
        if p.source.chunking != Chunking::Full {
            let mut q = p.clone();
            q.source = ReadPlan::plain();
            out.push(serde_json::to_value(q).unwrap());
        }
        if p.gzi_via_io {
            let mut q = p.clone();
            q.gzi_via_io = false;
            out.push(serde_json::to_value(q).unwrap());
        }
        if let Layout::Built { blocks, eof_markers } = &p.layout {
            for i in 0..blocks.len() {
                let mut b = blocks.clone();
                b.remove(i);
                let mut q = p.clone();
                q.layout = Layout::Built {
                    blocks: b,
                    eof_markers: *eof_markers,
                };
                out.push(serde_json::to_value(q).unwrap());
            }
            for i in 0..blocks.len() {
                if blocks[i].len > 4 {
                    let mut b = blocks.clone();
                    b[i].len = 4;
                    b[i].class = Class::Ramp;
                    let mut q = p.clone();
                    q.layout = Layout::Built {
                        blocks: b,
                        eof_markers: *eof_markers,
                    };
                    out.push(serde_json::to_value(q).unwrap());
                }
            }
        }
        out
    }
    fn rule(&self) -> String {
        "one evaluation = one generated reader history (<= 60 ops from {read(n), read_exact(n), fill_buf, consume(n), seek(any legal spelling of any byte boundary incl. end of stream and empty blocks), seek(position reported earlier by this reader or by the writer), seek_by_uncompressed_position / IndexedReader::seek through a gzi index}) on one long-lived bgzf::io::Reader or IndexedReader over a generated block layout (harness-built members: empty blocks mid-file, 64 KiB blocks, 0/1/2 EOF markers; or the output of a writer history), checked after every operation against the flat-array model: bytes, denotation of virtual_position(), monotonicity between seeks. distinct_nontrivial = distinct plan hashes among runs with >= 1 seek on a layout of >= 2 members".into()
    }
    fn assumptions(&self) -> Vec<String> {
        vec![
            "the harness block builder/walker (miniz_oxide, own CRC-32) defines the flat content and block table".into(),
            "after a read_exact that fails with UnexpectedEof the amount consumed is unspecified; the model re-synchronises at the next seek".into(),
            "source delivery is a tuning knob here (short reads), not judged (C12)".into(),
        ]
    }
    fn components(&self) -> Value {
        json!({"real": ["noodles-bgzf io::Reader, io::IndexedReader, gzi::Index, gzi::io::{Reader,Writer}, io::Writer (writer layouts)"], "stub": ["byte source (SimRead)"], "model": ["Flat: block table + flat array, denote(vpos)"]})
    }
    fn expected_probes(&self) -> Vec<&'static str> {
        vec![
            "seek_to_end_of_stream_from_nonempty_block",
            "seek_into_empty_block",
            "direct_read_path_after_seek",
            "read_exact_past_end",
            "seek_to_reported_position",
            "seek_by_uncompressed_offset",
            "writer_tells_sought",
        ]
    }
}
