//! SPIKE: drop-in subset of `crossbeam-channel` whose blocking operations are scheduling points
//! of a deterministic, seeded thread simulator (`sim`). Outside a simulation it behaves as an
//! ordinary blocking channel (Mutex + Condvar).

use std::{
    collections::VecDeque,
    fmt,
    sync::{Arc, Condvar, Mutex},
};

pub mod sim;

struct Chan<T> {
    q: VecDeque<T>,
    cap: usize,
    senders: usize,
    receivers: usize,
}

struct Shared<T> {
    chan: Mutex<Chan<T>>,
    cv: Condvar,
}

pub struct Sender<T>(Arc<Shared<T>>);
pub struct Receiver<T>(Arc<Shared<T>>);

pub struct SendError<T>(pub T);
#[derive(Debug, Clone, Copy, PartialEq, Eq)]
pub struct RecvError;

impl<T> fmt::Debug for SendError<T> {
    fn fmt(&self, f: &mut fmt::Formatter<'_>) -> fmt::Result {
        f.write_str("SendError(..)")
    }
}

pub fn bounded<T: Send + 'static>(cap: usize) -> (Sender<T>, Receiver<T>) {
    assert!(cap > 0, "shim: zero-capacity channels are not modelled");
    let shared = Arc::new(Shared {
        chan: Mutex::new(Chan {
            q: VecDeque::new(),
            cap,
            senders: 1,
            receivers: 1,
        }),
        cv: Condvar::new(),
    });
    (Sender(shared.clone()), Receiver(shared))
}

impl<T: Send + 'static> Sender<T> {
    pub fn send(&self, v: T) -> Result<(), SendError<T>> {
        if let Some(ctx) = sim::ctx() {
            let sh = self.0.clone();
            ctx.block_until("send", move |_| {
                let c = sh.chan.lock().unwrap();
                c.receivers == 0 || c.q.len() < c.cap
            });
            let mut c = self.0.chan.lock().unwrap();
            if c.receivers == 0 {
                return Err(SendError(v));
            }
            assert!(c.q.len() < c.cap);
            c.q.push_back(v);
            Ok(())
        } else {
            let mut c = self.0.chan.lock().unwrap();
            loop {
                if c.receivers == 0 {
                    return Err(SendError(v));
                }
                if c.q.len() < c.cap {
                    c.q.push_back(v);
                    self.0.cv.notify_all();
                    return Ok(());
                }
                c = self.0.cv.wait(c).unwrap();
            }
        }
    }
}

impl<T: Send + 'static> Receiver<T> {
    pub fn recv(&self) -> Result<T, RecvError> {
        if let Some(ctx) = sim::ctx() {
            let sh = self.0.clone();
            ctx.block_until("recv", move |_| {
                let c = sh.chan.lock().unwrap();
                !c.q.is_empty() || c.senders == 0
            });
            let mut c = self.0.chan.lock().unwrap();
            match c.q.pop_front() {
                Some(v) => Ok(v),
                None => {
                    assert_eq!(c.senders, 0);
                    Err(RecvError)
                }
            }
        } else {
            let mut c = self.0.chan.lock().unwrap();
            loop {
                if let Some(v) = c.q.pop_front() {
                    self.0.cv.notify_all();
                    return Ok(v);
                }
                if c.senders == 0 {
                    return Err(RecvError);
                }
                c = self.0.cv.wait(c).unwrap();
            }
        }
    }
}

impl<T> Clone for Sender<T> {
    fn clone(&self) -> Self {
        self.0.chan.lock().unwrap().senders += 1;
        Sender(self.0.clone())
    }
}

// (crossbeam's channels are multi-consumer: a receiver can be cloned; all clones take from the same
// queue and the channel is disconnected for senders only when the last one is dropped)
impl<T> Clone for Receiver<T> {
    fn clone(&self) -> Self {
        self.0.chan.lock().unwrap().receivers += 1;
        Receiver(self.0.clone())
    }
}

impl<T> Drop for Sender<T> {
    fn drop(&mut self) {
        let mut c = self.0.chan.lock().unwrap();
        c.senders -= 1;
        self.0.cv.notify_all();
    }
}

impl<T> Drop for Receiver<T> {
    fn drop(&mut self) {
        // crossbeam discards queued messages eagerly when the last receiver goes away
        let drained: Vec<T> = {
            let mut c = self.0.chan.lock().unwrap();
            c.receivers -= 1;
            self.0.cv.notify_all();
            if c.receivers == 0 {
                c.q.drain(..).collect()
            } else {
                Vec::new()
            }
        };
        drop(drained);
    }
}
